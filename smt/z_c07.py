#!/usr/bin/env python3
"""Engine Z query set for C07: the per-gate value formula, for ALL 16-bit raw values and ALL f32 scale/offset.

Encodes, from the MIR regenerated from the repo's current source:
  D  = GenericDataBlock::scaled_value(&self, raw: u16)   (decode level per-gate kernel)
  M  = MomentData::value_of(&self, raw: u16)             (model level per-gate kernel)
(how the gates are cut out of the byte buffer - one byte or one big-endian pair per gate - is the
subject of the Kani harnesses c07_gate_count_*)
and asks the solver for inputs on which
  q_decode_spec : D != spec      (finite scale/offset)
  q_model_spec  : M != spec      (finite scale/offset)
  q_levels      : D != M         (every f32 bit pattern, NaN/inf included)
where spec = raw 0 -> below-threshold, raw 1 -> range-folded, else (raw - offset) / scale for
scale != 0, and the raw value itself for scale == 0 (asserted for raw >= 2; for raw <= 1 with scale 0
only q_levels applies, see DESIGN.md section 5).  `unsat` from both z3 and cvc5 = holds for every
input; `sat` = concrete (scale, offset, raw) which is replayed natively before being reported.

Prints one JSON object on stdout (consumed by bin/check).
"""
import json, os, re, struct, subprocess, sys, time
sys.path.insert(0, os.path.dirname(os.path.abspath(__file__)))
import mir2smt
from mir2smt import Exec, Unsupported, find_function

F32 = "(_ FloatingPoint 8 24)"
TAG = {"Value": 0, "BelowThreshold": 1, "RangeFolded": 2}


def field_index(src_path, struct_name, field):
    """Index of `field` among the fields of `struct_name` in declaration order (MIR numbering)."""
    s = open(src_path).read()
    m = re.search(r"pub struct %s \{(.*?)\n\}" % struct_name, s, re.S)
    names = re.findall(r"^\s*(?:pub(?:\([a-z]+\))? )?(\w+)\s*:", m.group(1), re.M)
    return names.index(field)


def ite_chain(paths, proj):
    """paths: [(pc list, Val)] -> nested ite term of proj(Val)."""
    term = None
    for pc, v in reversed(paths):
        t = proj(v)
        cond = "(and %s)" % " ".join(["true"] + pc)
        term = t if term is None else "(ite %s %s %s)" % (cond, t, term)
    return term


def enum_terms(paths):
    def tag(v):
        return str(TAG[v.fields["__variant__"]])
    def pay(v):
        return v.fields["0"].term if "0" in v.fields else "((_ to_fp 8 24) RNE 0.0)"
    return ite_chain(paths, tag), ite_chain(paths, pay)


def rename(term, mapping):
    for a, b in mapping.items():
        term = re.sub(r"\b%s\b" % re.escape(a), b, term)
    return term


def build(repo, cache):
    t0 = time.time()
    dmir = mir2smt.dump_mir(os.path.join(repo, "nexrad-decode"), os.path.join(cache, "decode.mir"), os.path.join(cache, "mir-target"))
    mmir = mir2smt.dump_mir(os.path.join(repo, "nexrad-model"), os.path.join(cache, "model.mir"), os.path.join(cache, "mir-target"))
    dtext, mtext = open(dmir).read(), open(mmir).read()
    hsrc = os.path.join(repo, "nexrad-decode/src/messages/digital_radar_data/generic_data_block.rs")
    i_hdr = field_index(hsrc, "GenericDataBlock", "header")
    i_scale = field_index(hsrc, "GenericDataBlockHeader", "scale")
    i_off = field_index(hsrc, "GenericDataBlockHeader", "offset")
    msrc = os.path.join(repo, "nexrad-model/src/data/moment.rs")
    m_scale = field_index(msrc, "MomentData", "scale")
    m_off = field_index(msrc, "MomentData", "offset")
    funcs = []
    def one(text, pattern, scale_suffix, off_suffix):
        hdr, body = find_function(text, pattern)
        funcs.append(hdr.split("(")[0])
        ex = Exec(hdr, body)
        paths = ex.run()
        if ex.panics:
            raise Unsupported("%s has panic paths: %s" % (pattern, ex.panics))
        mp = {}
        for path, (name, ty) in ex.inputs.items():
            if path == "_2" and ty == "u16":
                mp[name] = "raw"
            elif path.endswith(scale_suffix) and ty == "f32":
                mp[name] = "scale"
            elif path.endswith(off_suffix) and ty == "f32":
                mp[name] = "offset"
            else:
                raise Unsupported("%s reads an unexpected input %s: %s" % (pattern, path, ty))
        return [rename(t, mp) for t in enum_terms(paths)]
    # ---- decode level: per-gate kernel
    dtag, dpay = one(dtext, r"generic_data_block\.rs:[0-9: ]+>::scaled_value\(", ".%d.%d" % (i_hdr, i_scale), ".%d.%d" % (i_hdr, i_off))
    # ---- model level: per-gate kernel
    mtag, mpay = one(mtext, r"moment\.rs:[0-9: ]+>::value_of\(", ".%d" % m_scale, ".%d" % m_off)
    return dict(dtag=dtag, dpay=dpay, mtag=mtag, mpay=mpay, funcs=funcs, build_s=time.time() - t0)


PRELUDE = """(set-logic ALL)
(declare-const scale %s)
(declare-const offset %s)
(declare-const raw (_ BitVec 16))
(declare-const scale_bits (_ BitVec 32))
(declare-const offset_bits (_ BitVec 32))
(assert (= scale ((_ to_fp 8 24) scale_bits)))
(assert (= offset ((_ to_fp 8 24) offset_bits)))
(define-fun rawf () %s ((_ to_fp_unsigned 8 24) RNE raw))
(define-fun zero () %s ((_ to_fp 8 24) RNE 0.0))
(define-fun finite ((x %s)) Bool (not (or (fp.isNaN x) (fp.isInfinite x))))
(define-fun spec_tag () Int (ite (fp.eq scale zero) 0 (ite (= raw #x0000) 1 (ite (= raw #x0001) 2 0))))
(define-fun spec_pay () %s (ite (fp.eq scale zero) rawf (fp.div RNE (fp.sub RNE rawf offset) scale)))
""" % (F32, F32, F32, F32, F32, F32)


def same(tag_a, pay_a, tag_b, pay_b):
    # equal tags, and equal payload when the tag is Value (payload compared as SMT `=`: NaN = NaN)
    return "(and (= %s %s) (or (not (= %s 0)) (= %s %s)))" % (tag_a, tag_b, tag_a, pay_a, pay_b)


def queries(enc):
    d = "(define-fun dtag () Int %s)\n(define-fun dpay () %s %s)\n(define-fun mtag () Int %s)\n(define-fun mpay () %s %s)\n" % (
        enc["dtag"], F32, enc["dpay"], enc["mtag"], F32, enc["mpay"])
    dom = "(assert (and (finite scale) (finite offset)))\n(assert (or (not (fp.eq scale zero)) (bvuge raw #x0002)))\n"
    tail = "(check-sat)\n(get-value (scale_bits offset_bits raw))\n"
    return {
        "q_decode_spec": PRELUDE + d + dom + "(assert (not %s))\n" % same("dtag", "dpay", "spec_tag", "spec_pay") + tail,
        "q_model_spec": PRELUDE + d + dom + "(assert (not %s))\n" % same("mtag", "mpay", "spec_tag", "spec_pay") + tail,
        "q_levels": PRELUDE + d + "(assert (not %s))\n" % same("dtag", "dpay", "mtag", "mpay") + tail,
        # vacuity guard: the domain itself is satisfiable and a deliberately wrong spec is refuted
        "w_domain_sat": PRELUDE + d + dom + "(assert (= raw #x7b01))\n" + tail,
        "w_wrong_spec_sat": PRELUDE + d + dom + "(assert (not (= dpay (fp.div RNE (fp.sub RNE offset rawf) scale))))\n(assert (= dtag 0))\n" + tail,
    }


def parse_model(out):
    vals = {}
    for m in re.finditer(r"\((scale_bits|offset_bits|raw) #([xb])([0-9a-fA-F]+)\)", out):
        vals[m.group(1)] = int(m.group(3), 16 if m.group(2) == "x" else 2)
    return vals


def f32(bits):
    return struct.unpack(">f", struct.pack(">I", bits))[0]


def bits32(x):
    return struct.unpack(">I", struct.pack(">f", x))[0]


def spec_py(sb, ob, raw):
    """Reference semantics in Python (f64 arithmetic rounded once to f32 is correctly rounded)."""
    s, o = f32(sb), f32(ob)
    if s == 0.0:
        return (0, bits32(float(raw)))
    if raw == 0:
        return (1, 0)
    if raw == 1:
        return (2, 0)
    try:
        v = (float(raw) - o)
        v = f32(bits32(v))
        q = v / s
        return (0, bits32(q))
    except OverflowError:
        return (0, bits32(float("inf") if (v > 0) == (s > 0) else float("-inf")))


def native(repo, cache, triples, harness_dir):
    """Run the real functions on the triples through harness/tests/z_native.rs."""
    crate = os.path.join(cache, "zcrate")
    subprocess.run(["rsync", "-a", "--delete", "--exclude", "target", "--exclude", "Cargo.lock", harness_dir + "/", crate + "/"], check=True)
    if repo != "/repo":
        ct = os.path.join(crate, "Cargo.toml")
        txt = open(ct).read().replace('"/repo/', '"%s/' % repo)
        open(ct, "w").write(txt)
    lock = os.path.join(repo, "Cargo.lock")
    if os.path.exists(lock):
        subprocess.run(["cp", lock, os.path.join(crate, "Cargo.lock")])
    env = dict(os.environ, CARGO_TARGET_DIR=os.path.join(cache, "ntarget"), CARGO_NET_OFFLINE="true",
               NVH_Z_C07="\n".join("%d %d %d" % t for t in triples))
    env.pop("RUSTFLAGS", None)
    r = subprocess.run(["cargo", "test", "--offline", "--test", "z_native", "--", "--nocapture", "--exact", "z_c07"],
                       cwd=crate, env=env, capture_output=True, text=True)
    res = {}
    for m in re.finditer(r"C07 (\d+) (\d+) (\d+) D (\d) (\d+) M (\d) (\d+)", r.stdout):
        g = list(map(int, m.groups()))
        res[(g[0], g[1], g[2])] = ((g[3], g[4]), (g[5], g[6]))
    if r.returncode != 0 and not res:
        raise Unsupported("native helper failed: %s" % (r.stdout[-400:] + r.stderr[-800:]))
    return res, r.returncode


FIXED = [(bits32(s), bits32(o), r) for (s, o) in
         [(2.0, 66.0), (2.0, 129.0), (1.0, 129.0), (16.0, 128.0), (2.8361, 2.0), (300.0, -60.5), (0.0, 0.0), (-1.0, 0.5)]
         for r in (0, 1, 2, 255, 256, 257, 40000, 65535)]


def eval_encoding(enc, triples):
    """Evaluate the SMT encoding on concrete inputs (translator validation)."""
    d = "(define-fun dtag () Int %s)\n(define-fun dpay () %s %s)\n(define-fun mtag () Int %s)\n(define-fun mpay () %s %s)\n" % (
        enc["dtag"], F32, enc["dpay"], enc["mtag"], F32, enc["mpay"])
    script = PRELUDE + d + "(declare-const db (_ BitVec 32))\n(declare-const mb (_ BitVec 32))\n"
    out = {}
    for (sb, ob, raw) in triples:
        q = script + "(assert (= scale_bits #x%08x))\n(assert (= offset_bits #x%08x))\n(assert (= raw #x%04x))\n" % (sb, ob, raw)
        q += "(assert (= dpay ((_ to_fp 8 24) db)))\n(assert (= mpay ((_ to_fp 8 24) mb)))\n(check-sat)\n(get-value (dtag mtag db mb))\n"
        v, o = mir2smt.run_solver(q, "z3", 60)
        if v != "sat":
            raise Unsupported("encoding evaluation not sat: %s" % o[:300])
        tags = re.findall(r"\((dtag|mtag) (\d)\)", o)
        bvs = re.findall(r"\((db|mb) #x([0-9a-f]{8})\)", o)
        t = dict(tags)
        b = dict(bvs)
        out[(sb, ob, raw)] = ((int(t["dtag"]), int(b["db"], 16)), (int(t["mtag"]), int(b["mb"], 16)))
    return out


def main():
    repo = os.environ.get("VERIF_REPO", "/repo")
    verif = os.path.dirname(os.path.dirname(os.path.abspath(__file__)))
    cache = os.environ.get("VERIF_CACHE", os.path.join(verif, ".cache"))
    os.makedirs(cache, exist_ok=True)
    res = dict(engine="mir2smt+z3/cvc5", queries=[], failed=[], errors=[], funcs=[], validated=0, solver_time=0.0)
    try:
        enc = build(repo, cache)
        res["funcs"] = enc["funcs"]
        res["build_s"] = round(enc["build_s"], 1)
        # translator validation on fixed triples: encoding == real code
        nat, _ = native(repo, cache, FIXED, os.path.join(verif, "harness"))
        encv = eval_encoding(enc, FIXED)
        for t in FIXED:
            if t not in nat:
                raise Unsupported("native helper produced no result for %s" % (t,))
            nd, nm = nat[t]
            ed, em = encv[t]
            ok = nd[0] == ed[0] and nm[0] == em[0] and (nd[0] != 0 or nd[1] == ed[1]) and (nm[0] != 0 or nm[1] == em[1])
            if not ok:
                raise Unsupported("translator validation failed on %s: native %s / encoding %s" % (t, nat[t], encv[t]))
            res["validated"] += 1
        for name, script in queries(enc).items():
            verdicts = {}
            for solver in ("z3", "cvc5"):
                t0 = time.time()
                v, out = mir2smt.run_solver(script, solver, 300)
                dt = time.time() - t0
                res["solver_time"] += dt
                verdicts[solver] = (v, out, dt)
            v3, vc = verdicts["z3"][0], verdicts["cvc5"][0]
            q = dict(name=name, z3=v3, cvc5=vc, z3_s=round(verdicts["z3"][2], 2), cvc5_s=round(verdicts["cvc5"][2], 2))
            res["queries"].append(q)
            want_sat = name.startswith("w_")
            if "error" in (v3, vc) or "unknown" in (v3, vc) or v3 != vc:
                res["errors"].append("%s: solvers answered z3=%s cvc5=%s" % (name, v3, vc))
                continue
            if want_sat:
                if v3 != "sat":
                    res["errors"].append("%s: vacuity witness is %s (expected sat)" % (name, v3))
                continue
            if v3 == "sat":
                model = parse_model(verdicts["z3"][1])
                if len(model) != 3:
                    res["errors"].append("%s: sat but no model parsed" % name)
                    continue
                trip = (model["scale_bits"], model["offset_bits"], model["raw"])
                natr, _ = native(repo, cache, [trip], os.path.join(verif, "harness"))
                nd, nm = natr.get(trip, (None, None))
                sp = spec_py(*trip)
                def eq(a, b):
                    return a is not None and a[0] == b[0] and (a[0] != 0 or a[1] == b[1])
                if name == "q_decode_spec":
                    repro = not eq(nd, sp)
                elif name == "q_model_spec":
                    repro = not eq(nm, sp)
                else:
                    repro = not eq(nd, nm)
                res["failed"].append(dict(query=name, scale_bits=trip[0], offset_bits=trip[1], raw=trip[2],
                                          scale=repr(f32(trip[0])), offset=repr(f32(trip[1])),
                                          native_decode=nd, native_model=nm, spec=sp, reproduced=repro))
    except Unsupported as e:
        res["errors"].append("unsupported: %s" % e)
    print(json.dumps(res))


if __name__ == "__main__":
    if len(sys.argv) > 2 and sys.argv[1] == "--replay":
        rp = json.load(open(sys.argv[2]))
        repo = os.environ.get("VERIF_REPO", "/repo")
        verif = os.path.dirname(os.path.dirname(os.path.abspath(__file__)))
        cache = os.environ.get("VERIF_CACHE", os.path.join(verif, ".cache"))
        bad = 0
        for f in rp["z_counterexamples"]:
            trip = (f["scale_bits"], f["offset_bits"], f["raw"])
            natr, _ = native(repo, cache, [trip], os.path.join(verif, "harness"))
            nd, nm = natr.get(trip, (None, None))
            sp = spec_py(*trip)
            print("replay %s: scale=%s offset=%s raw=%d native decode=%s model=%s spec=%s" % (f["query"], f["scale"], f["offset"], f["raw"], nd, nm, sp))
            def eq(a, b):
                return a is not None and a[0] == b[0] and (a[0] != 0 or a[1] == b[1])
            r = {"q_decode_spec": not eq(nd, sp), "q_model_spec": not eq(nm, sp), "q_levels": not eq(nd, nm)}[f["query"]]
            bad += r
        sys.exit(1 if bad else 0)
    main()
