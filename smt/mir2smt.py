#!/usr/bin/env python3
"""mir2smt — symbolic execution of loop-free leaf functions from rustc's MIR dump into SMT-LIB2.

Engine Z of /verif/DESIGN.md.  The MIR is regenerated from the crate's *current* source
(`cargo +nightly rustc -- -Zunpretty=mir`), the named function body is executed symbolically over
its control-flow DAG (every path; there are no loops in the supported subset), and the result is
an SMT term over input leaves (scalar reads of the arguments / captured references).

Supported subset (anything else raises Unsupported -> the caller reports *inconclusive*):
  locals of type bool, u8..u64/usize, i8..i64/isize, f32, f64, references (as place aliases),
  (T, bool) pairs from *WithOverflow; statements `_n = <rvalue>`; rvalues: use (copy/move) of a
  place, constants, BinaryOp (Eq Ne Lt Le Gt Ge Add Sub Mul Div Rem BitAnd BitOr BitXor Shl Shr and
  the *WithOverflow forms), Not/Neg, casts (IntToInt, IntToFloat, FloatToFloat), enum/struct
  aggregates `Path::Variant(args)` / `Path::Unit` / `Path { f: v, .. }`, calls listed in `opaque`
  (result is a fresh symbol); terminators: goto, switchInt, return, assert (the negated condition is
  collected as a panic condition), call -> [return: bbN].
"""
import os, re, subprocess, sys, shutil

class Unsupported(Exception):
    pass

INT_BITS = {"u8": 8, "u16": 16, "u32": 32, "u64": 64, "usize": 64, "i8": 8, "i16": 16, "i32": 32,
            "i64": 64, "isize": 64}
SIGNED = {"i8", "i16", "i32", "i64", "isize"}
FP = {"f32": (8, 24), "f64": (11, 53)}


def dump_mir(crate_dir, out_path, cache_dir, extra_args=()):
    """Regenerate the MIR dump of the library crate in crate_dir from its current source."""
    os.makedirs(cache_dir, exist_ok=True)
    name = os.path.basename(crate_dir.rstrip("/"))
    # force this crate (only) to be re-run by rustc: drop its fingerprints in the private cache
    fp = os.path.join(cache_dir, "debug", ".fingerprint")
    if os.path.isdir(fp):
        for d in os.listdir(fp):
            if d.startswith(name + "-"):
                shutil.rmtree(os.path.join(fp, d), ignore_errors=True)
    env = dict(os.environ, CARGO_TARGET_DIR=cache_dir, CARGO_NET_OFFLINE="true")
    env.pop("RUSTFLAGS", None)
    cmd = ["cargo", "+nightly", "rustc", "--offline", "--lib"] + list(extra_args) + [
        "--", "-Zunpretty=mir", "-C", "debug-assertions=off", "-C", "overflow-checks=on"]
    with open(out_path, "w") as f:
        r = subprocess.run(cmd, cwd=crate_dir, env=env, stdout=f, stderr=subprocess.PIPE, text=True)
    if r.returncode != 0 or os.path.getsize(out_path) == 0:
        raise Unsupported("MIR dump failed for %s: %s" % (crate_dir, r.stderr[-800:]))
    return out_path


MIR_TEXT = None   # the dump the current function was taken from (for named constants)


def find_function(mir_text, pattern):
    global MIR_TEXT
    MIR_TEXT = mir_text
    """Return (header, body_lines) of the unique `fn` whose header matches the regex."""
    hits = [m for m in re.finditer(r"^fn ([^\n]*) \{\n", mir_text, re.M) if re.search(pattern, m.group(1))]
    if len(hits) != 1:
        raise Unsupported("function pattern %r matched %d functions" % (pattern, len(hits)))
    start = hits[0].end()
    end = mir_text.index("\n}\n", start)
    return hits[0].group(1), mir_text[start:end].split("\n")


class Val:
    """SMT term with a Rust type tag."""
    def __init__(self, ty, term, fields=None):
        self.ty, self.term, self.fields = ty, term, fields  # fields: for aggregates / pairs

    def __repr__(self):
        return "Val(%s,%s,%s)" % (self.ty, self.term, self.fields)


def bv(n, bits):
    return "(_ bv%d %d)" % (n % (1 << bits), bits)


def sort_of(ty):
    if ty == "bool":
        return "Bool"
    if ty in INT_BITS:
        return "(_ BitVec %d)" % INT_BITS[ty]
    if ty in FP:
        return "(_ FloatingPoint %d %d)" % FP[ty]
    raise Unsupported("no SMT sort for type %s" % ty)


class Exec:
    def __init__(self, header, lines, opaque=()):
        self.header = header
        self.locals = {}
        self.blocks = {}
        self.inputs = {}      # leaf path -> (name, ty)
        self.opaque = opaque
        self.fresh = 0
        self.panics = []      # (path condition term, message)
        self.parse(lines)
        # argument types from the header
        m = re.search(r"\((.*)\) -> (.*)$", header)
        self.ret_ty = m.group(2).strip() if m else "()"
        for a in re.finditer(r"(_\d+): ([^,]+(?:<[^>]*>)?[^,]*)", m.group(1) if m else ""):
            self.locals.setdefault(a.group(1), a.group(2).strip())

    def parse(self, lines):
        cur = None
        for ln in lines:
            s = ln.strip()
            m = re.match(r"let (?:mut )?(_\d+): (.*);$", s)
            if m:
                self.locals[m.group(1)] = m.group(2).strip()
                continue
            m = re.match(r"(bb\d+)(?: \(cleanup\))?: \{$", s)
            if m:
                cur = m.group(1)
                self.blocks[cur] = []
                continue
            if s == "}" or not s or s.startswith("debug ") or s.startswith("scope "):
                continue
            if cur is not None:
                self.blocks[cur].append(s)

    # ---- places -------------------------------------------------------------------------------
    def leaf(self, path, ty):
        ty = ty.strip()
        if path not in self.inputs:
            name = "in_" + re.sub(r"[^A-Za-z0-9]+", "_", path).strip("_")
            self.inputs[path] = (name, ty)
        name, ty0 = self.inputs[path]
        return Val(ty0, name)

    def place_path(self, expr, env):
        """Normalise a place expression to a path string rooted at an argument, resolving reference
        locals that alias other places. Returns (path, type-or-None)."""
        expr = expr.strip()
        # strip outer parens with a type ascription: (<place>.N: T)
        m = re.match(r"^\((.*)\.(\d+): ([^()]*(?:\([^()]*\))?[^()]*)\)$", expr)
        if m and self.balanced(m.group(1)):
            base, _ = self.place_path(m.group(1), env)
            return base + "." + m.group(2), m.group(3).strip()
        m = re.match(r"^\(\*(.*)\)$", expr)
        if m and self.balanced(m.group(1)):
            base, _ = self.place_path(m.group(1), env)
            return base + ".*", None
        m = re.match(r"^\((.*)\)$", expr)
        if m and self.balanced(m.group(1)):
            return self.place_path(m.group(1), env)
        m = re.match(r"^(_\d+)$", expr)
        if m:
            v = env.get(expr)
            if isinstance(v, str):      # alias to a place path
                return v, self.locals.get(expr)
            return expr, self.locals.get(expr)
        raise Unsupported("place expression %r" % expr)

    @staticmethod
    def balanced(s):
        d = 0
        for ch in s:
            d += ch == "("
            d -= ch == ")"
            if d < 0:
                return False
        return d == 0

    def read_place(self, expr, env):
        expr = expr.strip()
        m = re.match(r"^(_\d+)$", expr)
        if m and not isinstance(env.get(expr), str):
            if expr in env:
                return env[expr]
            ty = self.locals.get(expr, "")
            if ty in INT_BITS or ty in FP or ty == "bool":
                return self.leaf(expr, ty)
            return Val(ty, None, {"__place__": expr})
        # (_9.0: usize) on a local pair/aggregate value
        m = re.match(r"^\((_\d+)\.(\d+): ([^)]*)\)$", expr)
        if m and m.group(1) in env and isinstance(env[m.group(1)], Val) and env[m.group(1)].fields:
            f = env[m.group(1)].fields
            if m.group(2) in f:
                return f[m.group(2)]
        path, ty = self.place_path(expr, env)
        if ty is None:
            raise Unsupported("read of untyped place %r" % expr)
        if ty.startswith("&"):
            return path  # alias
        if ty in INT_BITS or ty in FP or ty == "bool":
            return self.leaf(path, ty)
        return Val(ty, None, {"__place__": path})

    # ---- operands / rvalues ---------------------------------------------------------------------
    def const(self, s):
        s = s.strip()
        if s in ("true", "false"):
            return Val("bool", s)
        m = re.match(r"^(-?\d+)_(u8|u16|u32|u64|usize|i8|i16|i32|i64|isize)$", s)
        if m:
            return Val(m.group(2), bv(int(m.group(1)), INT_BITS[m.group(2)]))
        m = re.match(r"^(-?[0-9.]+(?:[eE][-+]?\d+)?)(f32|f64)$", s)
        if m:
            e, sg = FP[m.group(2)]
            x = float(m.group(1))
            if x == int(x) and abs(x) < (1 << 24):
                n = int(x)
                t = "((_ to_fp %d %d) RNE %s)" % (e, sg, ("(- %d.0)" % -n) if n < 0 else "%d.0" % n)
            else:
                t = "((_ to_fp %d %d) RNE %s)" % (e, sg, repr(x) if x >= 0 else "(- %s)" % repr(-x))
            return Val(m.group(2), t)
        # a named constant: resolve it from its own MIR body in the same dump (`_0 = const <literal>;`)
        mn = re.match(r"^(?:[A-Za-z_][A-Za-z0-9_]*::)*([A-Z_][A-Z0-9_]*)$", s)
        if mn and MIR_TEXT:
            name = re.escape(mn.group(1))
            mc = re.search(r"^const (?:[A-Za-z_][A-Za-z0-9_]*::)*%s: [A-Za-z0-9_]+ = const ([^;{]+);" % name, MIR_TEXT, re.M)
            if mc:
                return self.const(mc.group(1))
            mc = re.search(r"^const (?:[A-Za-z_][A-Za-z0-9_]*::)*%s: [A-Za-z0-9_]+ = \{(.*?)^\}" % name, MIR_TEXT, re.M | re.S)
            if mc:
                ml = re.search(r"_0 = const ([^;]+);", mc.group(1))
                if ml:
                    return self.const(ml.group(1))
        raise Unsupported("constant %r" % s)

    def operand(self, s, env):
        s = s.strip()
        if s.startswith("const "):
            return self.const(s[6:])
        s = re.sub(r"^(no_retag )?(copy|move) ", "", s)
        return self.read_place(s, env)

    def binop(self, op, a, b):
        ty = a.ty
        if ty in FP:
            rm = "RNE"
            t = {"Add": "(fp.add %s %s %s)" % (rm, a.term, b.term), "Sub": "(fp.sub %s %s %s)" % (rm, a.term, b.term),
                 "Mul": "(fp.mul %s %s %s)" % (rm, a.term, b.term), "Div": "(fp.div %s %s %s)" % (rm, a.term, b.term),
                 "Eq": "(fp.eq %s %s)" % (a.term, b.term), "Ne": "(not (fp.eq %s %s))" % (a.term, b.term),
                 "Lt": "(fp.lt %s %s)" % (a.term, b.term), "Le": "(fp.leq %s %s)" % (a.term, b.term),
                 "Gt": "(fp.gt %s %s)" % (a.term, b.term), "Ge": "(fp.geq %s %s)" % (a.term, b.term)}.get(op)
            if t is None:
                raise Unsupported("float op %s" % op)
            return Val("bool" if op in ("Eq", "Ne", "Lt", "Le", "Gt", "Ge") else ty, t)
        if ty == "bool":
            t = {"Eq": "(= %s %s)", "Ne": "(distinct %s %s)", "BitAnd": "(and %s %s)", "BitOr": "(or %s %s)",
                 "BitXor": "(xor %s %s)"}.get(op)
            if t is None:
                raise Unsupported("bool op %s" % op)
            return Val("bool", t % (a.term, b.term))
        if ty not in INT_BITS:
            raise Unsupported("binop %s on %s" % (op, ty))
        s = ty in SIGNED
        n = INT_BITS[ty]
        bt = b.term
        if op in ("Shl", "Shr") and b.ty != ty:   # shift amount of another width
            nb = INT_BITS[b.ty]
            bt = "((_ zero_extend %d) %s)" % (n - nb, b.term) if nb < n else "((_ extract %d 0) %s)" % (n - 1, b.term)
        tbl = {"Add": "bvadd", "Sub": "bvsub", "Mul": "bvmul", "Div": "bvsdiv" if s else "bvudiv",
               "Rem": "bvsrem" if s else "bvurem", "BitAnd": "bvand", "BitOr": "bvor", "BitXor": "bvxor",
               "Shl": "bvshl", "Shr": "bvashr" if s else "bvlshr"}
        cmp = {"Eq": "=", "Ne": "distinct", "Lt": "bvslt" if s else "bvult", "Le": "bvsle" if s else "bvule",
               "Gt": "bvsgt" if s else "bvugt", "Ge": "bvsge" if s else "bvuge"}
        if op in tbl:
            return Val(ty, "(%s %s %s)" % (tbl[op], a.term, bt))
        if op in cmp:
            return Val("bool", "(%s %s %s)" % (cmp[op], a.term, bt))
        m = re.match(r"^(Add|Sub|Mul)WithOverflow$", op)
        if m:
            o = {"Add": "bvadd", "Sub": "bvsub", "Mul": "bvmul"}[m.group(1)]
            ext = "sign_extend" if s else "zero_extend"
            wide = "(%s ((_ %s %d) %s) ((_ %s %d) %s))" % (o, ext, n, a.term, ext, n, b.term)
            res = "(%s %s %s)" % (o, a.term, b.term)
            ovf = "(distinct %s ((_ %s %d) %s))" % (wide, ext, n, res)
            return Val("(%s, bool)" % ty, None, {"0": Val(ty, res), "1": Val("bool", ovf)})
        raise Unsupported("int op %s" % op)

    def cast(self, v, ty, kind):
        if kind == "IntToInt":
            a, b = INT_BITS[v.ty], INT_BITS[ty]
            if b == a:
                return Val(ty, v.term)
            if b < a:
                return Val(ty, "((_ extract %d 0) %s)" % (b - 1, v.term))
            ext = "sign_extend" if v.ty in SIGNED else "zero_extend"
            return Val(ty, "((_ %s %d) %s)" % (ext, b - a, v.term))
        if kind == "IntToFloat":
            e, sg = FP[ty]
            f = "to_fp" if v.ty in SIGNED else "to_fp_unsigned"
            return Val(ty, "((_ %s %d %d) RNE %s)" % (f, e, sg, v.term))
        if kind == "FloatToFloat":
            e, sg = FP[ty]
            return Val(ty, "((_ to_fp %d %d) RNE %s)" % (e, sg, v.term))
        raise Unsupported("cast %s" % kind)

    def rvalue(self, rhs, env):
        rhs = rhs.strip()
        m = re.match(r"^(\w+)\((.*)\)$", rhs)
        if m and m.group(1) in ("Eq", "Ne", "Lt", "Le", "Gt", "Ge", "Add", "Sub", "Mul", "Div", "Rem", "BitAnd",
                                "BitOr", "BitXor", "Shl", "Shr", "AddWithOverflow", "SubWithOverflow",
                                "MulWithOverflow", "AddUnchecked", "SubUnchecked", "MulUnchecked", "ShlUnchecked", "ShrUnchecked"):
            a, b = self.split_args(m.group(2))
            op = m.group(1).replace("Unchecked", "")
            return self.binop(op, self.operand(a, env), self.operand(b, env))
        m = re.match(r"^(Not|Neg)\((.*)\)$", rhs)
        if m:
            v = self.operand(m.group(2), env)
            if m.group(1) == "Not":
                return Val(v.ty, "(not %s)" % v.term if v.ty == "bool" else "(bvnot %s)" % v.term)
            return Val(v.ty, "(fp.neg %s)" % v.term if v.ty in FP else "(bvneg %s)" % v.term)
        m = re.match(r"^(.*) as ([\w]+) \((\w+)\)$", rhs)
        if m:
            return self.cast(self.operand(m.group(1), env), m.group(2), m.group(3))
        m = re.match(r"^&(?:mut )?(.*)$", rhs)
        if m:
            p, _ = self.place_path(m.group(1), env)
            return p
        if rhs.startswith("const ") or re.match(r"^(no_retag )?(copy|move) ", rhs):
            return self.operand(rhs, env)
        if rhs.startswith("{closure@"):
            return Val("closure", None, {"__closure__": rhs})
        # aggregates: Path::Variant(args) | Path::Unit | Path { f: v }
        m = re.match(r"^([\w:<> ,&']+?)::(\w+)\((.*)\)$", rhs)
        if m:
            args = [self.operand(a, env) for a in self.split_args(m.group(3))] if m.group(3).strip() else []
            return Val(m.group(1), None, {"__variant__": m.group(2), **{str(i): a for i, a in enumerate(args)}})
        m = re.match(r"^([\w:<> ,&']+?)::(\w+)$", rhs)
        if m:
            return Val(m.group(1), None, {"__variant__": m.group(2)})
        m = re.match(r"^([\w:<> ,&']+?) \{ (.*) \}$", rhs)
        if m:
            f = {"__variant__": "struct"}
            for kv in self.split_args(m.group(2)):
                k, v = kv.split(":", 1)
                f[k.strip()] = self.operand(v, env)
            return Val(m.group(1), None, f)
        raise Unsupported("rvalue %r" % rhs)

    @staticmethod
    def split_args(s):
        out, d, cur = [], 0, ""
        for ch in s:
            if ch in "([{<":
                d += 1
            if ch in ")]}>":
                d -= 1
            if ch == "," and d == 0:
                out.append(cur)
                cur = ""
            else:
                cur += ch
        if cur.strip():
            out.append(cur)
        return [x.strip() for x in out]

    # ---- execution --------------------------------------------------------------------------------
    # integer library functions with an exact bit-vector meaning (so that a clamp or a saturating
    # operation added to a kernel is encoded, not reported as unsupported)
    MODELLED = re.compile(r"^(?:<(u8|u16|u32|u64|usize|i8|i16|i32|i64|isize) as (?:std|core)::cmp::Ord>::(min|max)"
                          r"|(?:std|core)::cmp::(min|max)::<(u8|u16|u32|u64|usize|i8|i16|i32|i64|isize)>"
                          r"|(?:std|core)::num::<impl (u8|u16|u32|u64|usize)>::(saturating_sub|saturating_add|wrapping_sub|wrapping_add|wrapping_mul))\((.*)\)$")

    def model_call(self, callee, env):
        m = self.MODELLED.match(callee.strip())
        if not m:
            return None
        ty = m.group(1) or m.group(4) or m.group(5)
        fn = m.group(2) or m.group(3) or m.group(6)
        args = self.split_args(m.group(7))
        if len(args) != 2:
            return None
        try:
            a, b = self.operand(args[0], env), self.operand(args[1], env)
        except Unsupported:
            return None
        if a.term is None or b.term is None or a.ty != ty or b.ty != ty:
            return None
        n = INT_BITS[ty]
        sg = ty in SIGNED
        lt = "bvslt" if sg else "bvult"
        if fn == "min":
            t = "(ite (%s %s %s) %s %s)" % (lt, b.term, a.term, b.term, a.term)
        elif fn == "max":
            t = "(ite (%s %s %s) %s %s)" % (lt, a.term, b.term, b.term, a.term)
        elif fn == "saturating_sub":
            t = "(ite (bvult %s %s) %s (bvsub %s %s))" % (a.term, b.term, bv(0, n), a.term, b.term)
        elif fn == "saturating_add":
            t = "(ite (bvult (bvadd %s %s) %s) %s (bvadd %s %s))" % (a.term, b.term, a.term, bv((1 << n) - 1, n), a.term, b.term)
        else:
            t = "(%s %s %s)" % ({"wrapping_sub": "bvsub", "wrapping_add": "bvadd", "wrapping_mul": "bvmul"}[fn], a.term, b.term)
        return Val(ty, t)

    def run(self):
        """Returns list of (path condition, return Val)."""
        self.results = []
        self.step("bb0", {}, [], 0)
        return self.results

    def step(self, bb, env, pc, depth):
        if depth > 400:
            raise Unsupported("path too long (loop?)")
        env = dict(env)
        for s in self.blocks[bb]:
            s = s.rstrip(";")
            if s == "return":
                self.results.append((list(pc), env.get("_0")))
                return
            m = re.match(r"^goto -> (bb\d+)$", s)
            if m:
                return self.step(m.group(1), env, pc, depth + 1)
            m = re.match(r"^switchInt\((.*)\) -> \[(.*)\]$", s)
            if m:
                v = self.operand(m.group(1), env)
                arms = [a.strip() for a in m.group(2).split(",")]
                taken = []
                for a in arms:
                    k, tgt = [x.strip() for x in a.split(":")]
                    if k == "otherwise":
                        cond = "(and %s)" % " ".join(["true"] + ["(not %s)" % t for t in taken])
                    else:
                        if v.ty == "bool":
                            cond = v.term if int(k) else "(not %s)" % v.term
                        else:
                            cond = "(= %s %s)" % (v.term, bv(int(k), INT_BITS[v.ty]))
                        taken.append(cond)
                    self.step(tgt, env, pc + [cond], depth + 1)
                return
            m = re.match(r"^assert\((!?)(.*?), \"(.*?)\".*\) -> \[success: (bb\d+).*\]$", s)
            if m:
                c = self.operand(m.group(2), env)
                ok = "(not %s)" % c.term if m.group(1) else c.term
                self.panics.append(("(and %s)" % " ".join(["true"] + pc + ["(not %s)" % ok]), m.group(3)))
                return self.step(m.group(4), env, pc + [ok], depth + 1)
            m = re.match(r"^(_\d+) = (.*) -> \[return: (bb\d+).*\]$", s)
            if m:
                callee = m.group(2)
                modelled = self.model_call(callee, env)
                if modelled is not None:
                    env[m.group(1)] = modelled
                    return self.step(m.group(3), env, pc, depth + 1)
                if not any(re.search(o, callee) for o in self.opaque):
                    raise Unsupported("call %r" % callee)
                self.fresh += 1
                f = {"__opaque__": callee, "__id__": self.fresh}
                ma = re.match(r"^.*?\((.*)\)$", callee)
                if ma:
                    for ai, a in enumerate(self.split_args(ma.group(1))):
                        try:
                            f["arg%d" % ai] = self.operand(a, env)
                        except Unsupported:
                            pass
                env[m.group(1)] = Val(self.locals.get(m.group(1), "?"), None, f)
                return self.step(m.group(3), env, pc, depth + 1)
            m = re.match(r"^(_\d+) = (.*)$", s)
            if m:
                env[m.group(1)] = self.rvalue(m.group(2), env)
                continue
            if s.startswith("StorageLive") or s.startswith("StorageDead") or s.startswith("nop") or s.startswith("FakeRead") \
                    or s.startswith("PlaceMention") or s.startswith("AscribeUserType") or s.startswith("Retag"):
                continue
            if s.startswith("unreachable"):
                return
            raise Unsupported("statement %r" % s)
        raise Unsupported("block %s has no terminator" % bb)


def declare_inputs(ex):
    return ["(declare-const %s %s)" % (n, sort_of(t)) for (n, t) in ex.inputs.values()]


def run_solver(script, solver="z3", timeout_s=120):
    """Returns (verdict, raw) with verdict in sat/unsat/unknown/error."""
    if solver == "z3":
        cmd = ["/usr/bin/z3", "-in", "-T:%d" % timeout_s]
    else:
        cmd = ["cvc5", "--lang", "smt2", "--produce-models", "--tlimit=%d" % (timeout_s * 1000)]
    r = subprocess.run(cmd, input=script, capture_output=True, text=True)
    out = r.stdout + r.stderr
    lines = [l.strip() for l in out.strip().split("\n") if l.strip()]
    first = lines[0] if lines else ""
    if first == "unsat":
        # the trailing (get-value ..) legitimately errors after unsat; anything before it would have
        # been the first line
        return "unsat", out
    if "(error" in out:
        return "error", out
    if first in ("sat", "unknown"):
        return first, out
    return "error", out


if __name__ == "__main__":
    mir = open(sys.argv[1]).read()
    hdr, body = find_function(mir, sys.argv[2])
    ex = Exec(hdr, body, opaque=[r"from_elem"])
    for pc, rv in ex.run():
        print("PATH", pc, "=>", rv)
    print("INPUTS", ex.inputs)
    print("PANICS", ex.panics)
