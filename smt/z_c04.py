#!/usr/bin/env python3
"""Engine Z query set for C04's memory clause: the gate buffer of a type-31 moment block.

From the MIR of GenericDataBlock::new (regenerated from the repo's current source): for every
gate count (u16) and word size (u8)
  q_no_panic   : no division by zero / multiplication overflow can fire
  q_size_bound : the allocation size handed to vec![0; n] is <= 65535 * 31 bytes (a constant)
  q_size_exact : the size is gates * (word_size / 8)
z3 and cvc5 must agree.  Prints one JSON object (consumed by bin/check).
"""
import json, os, re, sys, time
sys.path.insert(0, os.path.dirname(os.path.abspath(__file__)))
import mir2smt
from mir2smt import Exec, Unsupported, find_function
from z_c07 import field_index


def native_gates(repo, cache, harness_dir, gates, word):
    """Length of the gate buffer the REAL decoder allocates for (gates, word), or None on error."""
    import subprocess
    crate = os.path.join(cache, "zcrate")
    subprocess.run(["rsync", "-a", "--delete", "--exclude", "target", "--exclude", "Cargo.lock", harness_dir + "/", crate + "/"], check=True)
    if repo != "/repo":
        ct = os.path.join(crate, "Cargo.toml")
        txt = open(ct).read().replace('"/repo/', '"%s/' % repo)
        open(ct, "w").write(txt)
    lock = os.path.join(repo, "Cargo.lock")
    if os.path.exists(lock):
        subprocess.run(["cp", lock, os.path.join(crate, "Cargo.lock")])
    env = dict(os.environ, CARGO_TARGET_DIR=os.path.join(cache, "ntarget"), CARGO_NET_OFFLINE="true", NVH_Z_GATES="%d %d" % (gates, word))
    env.pop("RUSTFLAGS", None)
    r = subprocess.run(["cargo", "test", "--offline", "--test", "z_native", "--", "--nocapture", "--exact", "z_gates"],
                       cwd=crate, env=env, capture_output=True, text=True)
    m = re.search(r"GATES %d %d (\d+|ERR)" % (gates, word), r.stdout)
    if not m or m.group(1) == "ERR":
        return None
    return int(m.group(1))


def main():
    repo = os.environ.get("VERIF_REPO", "/repo")
    verif = os.path.dirname(os.path.dirname(os.path.abspath(__file__)))
    cache = os.environ.get("VERIF_CACHE", os.path.join(verif, ".cache"))
    res = dict(engine="mir2smt+z3/cvc5", queries=[], failed=[], errors=[], funcs=[], validated=0, solver_time=0.0)
    try:
        dmir = mir2smt.dump_mir(os.path.join(repo, "nexrad-decode"), os.path.join(cache, "decode.mir"), os.path.join(cache, "mir-target"))
        text = open(dmir).read()
        hdr, body = find_function(text, r"generic_data_block\.rs:[0-9: ]+>::new\(")
        res["funcs"].append(hdr.split("(")[0])
        ex = Exec(hdr, body, opaque=[r"from_elem"])
        paths = ex.run()
        src = os.path.join(repo, "nexrad-decode/src/messages/digital_radar_data/generic_data_block.rs")
        i_g = field_index(src, "GenericDataBlockHeader", "number_of_data_moment_gates")
        i_w = field_index(src, "GenericDataBlockHeader", "data_word_size")
        names = {}
        for path, (name, ty) in ex.inputs.items():
            if path.endswith(".%d" % i_g) and ty == "u16":
                names[name] = "gates"
            elif path.endswith(".%d" % i_w) and ty == "u8":
                names[name] = "word"
            else:
                raise Unsupported("GenericDataBlock::new reads an unexpected input %s: %s" % (path, ty))
        def rn(t):
            for a, b in names.items():
                t = re.sub(r"\b%s\b" % re.escape(a), b, t)
            return t
        decl = "(set-logic ALL)\n(declare-const gates (_ BitVec 16))\n(declare-const word (_ BitVec 8))\n"
        sizes = []
        for pc, rv in paths:
            enc = rv.fields.get("encoded_data") if rv is not None and rv.fields else None
            if enc is None or "arg1" not in (enc.fields or {}):
                raise Unsupported("cannot find the vec![0; n] size in GenericDataBlock::new")
            sizes.append(("(and %s)" % " ".join(["true"] + pc), enc.fields["arg1"].term))
        size = None
        for c, t in reversed(sizes):
            size = t if size is None else "(ite %s %s %s)" % (c, t, size)
        size = rn(size)
        panic = "(or false %s)" % " ".join(rn(c) for c, _ in ex.panics)
        tail = "(check-sat)\n(get-value (gates word))\n"
        spec = "(bvmul ((_ zero_extend 48) gates) (bvudiv ((_ zero_extend 56) word) (_ bv8 64)))"
        qs = {
            "q_no_panic": decl + "(assert %s)\n" % panic + tail,
            "q_size_bound": decl + "(assert (not %s))\n(assert (bvugt %s (_ bv%d 64)))\n" % (panic, size, 65535 * 31) + tail,
            "q_size_exact": decl + "(assert (not %s))\n(assert (distinct %s %s))\n" % (panic, size, spec) + tail,
            "w_max_size_reachable": decl + "(assert (= %s (_ bv%d 64)))\n" % (size, 65535 * 31) + tail,
        }
        for name, script in qs.items():
            v = {}
            for solver in ("z3", "cvc5"):
                t0 = time.time()
                v[solver] = mir2smt.run_solver(script, solver, 120)
                res["solver_time"] += time.time() - t0
            a, b = v["z3"][0], v["cvc5"][0]
            res["queries"].append(dict(name=name, z3=a, cvc5=b))
            if a != b or a in ("error", "unknown"):
                res["errors"].append("%s: z3=%s cvc5=%s" % (name, a, b))
            elif name.startswith("w_"):
                if a != "sat":
                    res["errors"].append("%s: witness %s" % (name, a))
            elif a == "sat":
                m = dict(re.findall(r"\((gates|word) #x([0-9a-f]+)\)", v["z3"][1]))
                g, w = int(m.get("gates", "0"), 16), int(m.get("word", "0"), 16)
                # native replay: decode a one-block message with these values through the real decoder
                got = native_gates(repo, cache, os.path.join(verif, "harness"), g, w)
                want = g * (w // 8)
                rep = (got != want) if name == "q_size_exact" else (got is None or got > 65535 * 31)
                res["failed"].append(dict(query=name, scale="-", offset="-", raw="gates=%d word=%d -> real gate buffer %s bytes, expected %d" % (g, w, got, want), gates=g, word=w,
                                          reproduced=bool(rep), scale_bits=0, offset_bits=0))
    except Unsupported as e:
        res["errors"].append("unsupported: %s" % e)
    print(json.dumps(res))


if __name__ == "__main__":
    if len(sys.argv) > 2 and sys.argv[1] == "--replay":
        rp = json.load(open(sys.argv[2]))
        repo = os.environ.get("VERIF_REPO", "/repo")
        verif = os.path.dirname(os.path.dirname(os.path.abspath(__file__)))
        cache = os.environ.get("VERIF_CACHE", os.path.join(verif, ".cache"))
        bad = 0
        for f in rp["z_counterexamples"]:
            got = native_gates(repo, cache, os.path.join(verif, "harness"), f["gates"], f["word"])
            want = f["gates"] * (f["word"] // 8)
            print("replay %s: gates=%d word=%d -> real gate buffer %s bytes, expected %d" % (f["query"], f["gates"], f["word"], got, want))
            if got != want:
                bad += 1
        sys.exit(1 if bad else 0)
    main()
