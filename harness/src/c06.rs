//! C06 — volume, record and chunk handling is total on arbitrary bytes.
//! Buffers: every byte symbolic AND the length symbolic (0..=L).  Checked: no panic / overflow /
//! out-of-bounds, loops end within the bound (unwinding assertions).
use nexrad_data::aws::realtime::Chunk;
use nexrad_data::volume::{split_compressed_records, File, Record};

fn any_vec<const L: usize>() -> (Vec<u8>, [u8; L], usize) {
    let b: [u8; L] = kani::any();
    let n: usize = kani::any();
    kani::assume(n <= L);
    (b[..n].to_vec(), b, n)
}

/// File::records on any file of 0..=40 bytes (header is 24): a value, never a crash; and every
/// record returned lies inside the file.
#[kani::proof]
#[kani::unwind(7)]
fn c06_file_records() {
    let (v, _b, n) = any_vec::<40>();
    let f = File::new(v);
    let rs = f.records();
    let mut total = 0usize;
    let mut i = 0;
    while i < rs.len() {
        total += rs[i].data().len();
        i += 1;
    }
    assert!(total <= n.saturating_sub(24) || n < 24, "C06: records exceed the file remainder");
    wit!(n < 24);
    wit!(n == 40 && rs.len() == 4);
    wit!(n == 30 && rs.len() == 0);
    core::mem::forget(rs);
    core::mem::forget(f);
}

/// split_compressed_records on any 0..=20 bytes: short prefix, oversized prefix, negative sizes.
#[kani::proof]
#[kani::unwind(7)]
fn c06_split() {
    let b: [u8; 20] = kani::any();
    let n: usize = kani::any();
    kani::assume(n <= 20);
    let rs = split_compressed_records(&b[..n]);
    assert!(rs.len() <= 5);
    wit!(n == 3);
    wit!(n == 20 && rs.len() == 5);
    wit!(n == 12 && b[0] == 0x7f);
    core::mem::forget(rs);
}

/// Record::compressed on any record of 0..=12 bytes is exactly "'BZ' follows the 4-byte prefix".
#[kani::proof]
#[kani::unwind(4)]
fn c06_record_compressed() {
    let b: [u8; 12] = kani::any();
    let n: usize = kani::any();
    kani::assume(n <= 12);
    let r = Record::from_slice(&b[..n]);
    let want = n >= 6 && b[4] == b'B' && b[5] == b'Z';
    assert!(r.compressed() == want, "C06/C05: compressed() <=> bytes 4..6 == 'BZ'");
    let o = Record::new(b[..n].to_vec());
    assert!(o.compressed() == want);
    assert!(o.data().len() == n);
    wit!(n == 5);
    wit!(want && n == 6);
    core::mem::forget(o);
}

/// Chunk::new on any 0..=12 bytes: Ok or Err, never a crash; classification by magic.
#[kani::proof]
#[kani::unwind(4)]
fn c06_chunk_new() {
    let (v, b, n) = any_vec::<12>();
    let r = Chunk::new(v);
    let is_start = n >= 3 && b[0] == b'A' && b[1] == b'R' && b[2] == b'2';
    let is_bz = n >= 6 && b[4] == b'B' && b[5] == b'Z';
    match &r {
        Ok(Chunk::Start(f)) => {
            assert!(is_start);
            assert!(f.data().len() == n);
        }
        Ok(Chunk::IntermediateOrEnd(rec)) => {
            assert!(!is_start && is_bz);
            assert!(rec.data().len() == n);
        }
        Err(_) => assert!(!is_start && !is_bz, "C06: recognisable chunk rejected"),
    }
    if let Ok(c) = &r {
        assert!(c.data().len() == n);
    }
    wit!(n == 0);
    wit!(n == 2 && r.is_err());
    wit!(is_start && n == 3);
    wit!(is_bz && !is_start);
    core::mem::forget(r);
}

/// File::header on any 0..=30 bytes: Ok iff 24 bytes are there.
#[kani::proof]
#[kani::unwind(12)]
#[kani::stub(alloc::fmt::format, crate::stubs::fmt_format)]
fn c06_file_header() {
    let (v, _b, n) = any_vec::<30>();
    let f = File::new(v);
    let h = f.header();
    assert!(h.is_ok() == (n >= 24), "C06: header() must succeed exactly when 24 bytes are present");
    wit!(n == 23);
    wit!(n == 24);
    core::mem::forget(h);
    core::mem::forget(f);
}

/// Record::messages on a compressed record is an error (checked before any decoding); the magic
/// bytes are concrete so that the gate is decided during symbolic execution, the rest is symbolic.
#[kani::proof]
#[kani::unwind(4)]
#[kani::stub(alloc::fmt::format, crate::stubs::fmt_format)]
fn c06_compressed_record_not_decoded() {
    let mut b: [u8; 12] = kani::any();
    b[4] = b'B';
    b[5] = b'Z';
    let r = Record::from_slice(&b[..]);
    assert!(r.compressed());
    let m = r.messages();
    assert!(m.is_err(), "C05: decoding a compressed record must be an error");
    core::mem::forget(m);
}

/// Record::decompress on a record that is not compressed is an error (returns before any FFI):
/// a record too short to carry the magic, and a 12-byte record whose byte 4 is not 'B'.
#[kani::proof]
#[kani::unwind(4)]
#[kani::stub(alloc::fmt::format, crate::stubs::fmt_format)]
fn c06_uncompressed_record_not_decompressed() {
    let b: [u8; 12] = kani::any();
    let short = Record::from_slice(&b[..5]);
    let d = short.decompress();
    assert!(d.is_err(), "C05: decompressing an uncompressed record must be an error");
    core::mem::forget(d);
    let mut c = b;
    c[4] = b'X';
    let long = Record::from_slice(&c[..]);
    assert!(!long.compressed());
    let d = long.decompress();
    assert!(d.is_err(), "C05: decompressing an uncompressed record must be an error");
    core::mem::forget(d);
}
