//! C19 — chunk-to-elevation mapping and next-chunk time estimates follow the VCP.
use chrono::{DateTime, Utc};
use nexrad_data::aws::realtime::{
    estimate_next_chunk_time, get_elevation_from_chunk, ChunkIdentifier, VolumeIndex,
};
use nexrad_decode::messages::volume_coverage_pattern::{ElevationDataBlock, Header, Message};

pub fn cut(super_res: u8, waveform: u8, channel: u8) -> ElevationDataBlock {
    ElevationDataBlock {
        elevation_angle: 0,
        channel_configuration: channel,
        waveform_type: waveform,
        super_resolution_control: super_res,
        surveillance_prf_number: 0,
        surveillance_prf_pulse_count_radial: 0,
        azimuth_rate: 0,
        reflectivity_threshold: 0,
        velocity_threshold: 0,
        spectrum_width_threshold: 0,
        differential_reflectivity_threshold: 0,
        differential_phase_threshold: 0,
        correlation_coefficient_threshold: 0,
        sector_1_edge_angle: 0,
        sector_1_doppler_prf_number: 0,
        sector_1_doppler_prf_pulse_count_radial: 0,
        supplemental_data: 0,
        sector_2_edge_angle: 0,
        sector_2_doppler_prf_number: 0,
        sector_2_doppler_prf_pulse_count_radial: 0,
        ebc_angle: 0,
        sector_3_edge_angle: 0,
        sector_3_doppler_prf_number: 0,
        sector_3_doppler_prf_pulse_count_radial: 0,
        reserved: 0,
    }
}

/// Oracle: chunk 1 -> none; chunk s > 1 -> the cut j with 1 + sum_{i<j} w_i < s <= 1 + sum_{i<=j} w_i,
/// w = 6 for a half-degree-azimuth cut (bit 0 of super resolution control), 3 otherwise; none past the end.
fn elevation_map<const L: usize>() {
    let sr: [u8; L] = kani::any();
    let len: usize = kani::any();
    kani::assume(len <= L);
    let mut v = Vec::with_capacity(L);
    let mut i = 0;
    while i < len {
        v.push(cut(sr[i], 1, 0));
        i += 1;
    }
    let seq: usize = kani::any();
    kani::assume(seq >= 1 && seq <= 200);
    let got = get_elevation_from_chunk(seq, &v);
    // independent oracle
    let mut want: Option<usize> = None;
    if seq > 1 {
        let mut hi = 1usize;
        let mut j = 0;
        while j < len {
            let lo = hi;
            hi += if sr[j] & 1 != 0 { 6 } else { 3 };
            if want.is_none() && lo < seq && seq <= hi {
                want = Some(j);
            }
            j += 1;
        }
    }
    match (got, want) {
        (None, None) => {}
        (Some(g), Some(j)) => assert!(core::ptr::eq(g, &v[j]), "C19: chunk mapped to the wrong elevation cut"),
        (Some(_), None) => panic!("C19: chunk mapped to a cut where none is expected (chunk 1 or past the last cut)"),
        (None, Some(_)) => panic!("C19: chunk within the VCP mapped to no cut"),
    }
    wit!(seq == 1 && len > 0);
    wit!(len == L && got.is_none() && seq > 1);
    wit!(len == L && L > 1 && want == Some(L - 1));
    core::mem::forget(v);
}

#[kani::proof]
#[kani::unwind(6)]
fn c19_elevation_map_le4() {
    elevation_map::<4>();
}

#[kani::proof]
#[kani::unwind(10)]
fn c19_elevation_map_le8() {
    elevation_map::<8>();
}

#[kani::proof]
#[kani::unwind(34)]
fn c19_elevation_map_le32() {
    elevation_map::<32>();
}

/// A chunk identifier "20240813-123330-DDD-T" with symbolic digits and type letter.
pub fn chunk_id(d: [u8; 3], letter: u8, v: usize, t: Option<DateTime<Utc>>) -> ChunkIdentifier {
    // built from bytes (all ASCII by the callers' assumptions) so that the length stays concrete:
    // String::push(char) would branch on the UTF-8 width of every symbolic character
    let mut b = *b"20240813-123330-000-I";
    b[16] = d[0];
    b[17] = d[1];
    b[18] = d[2];
    b[20] = letter;
    let name = unsafe { String::from_utf8_unchecked(b.to_vec()) };
    ChunkIdentifier::new(String::from("KTLX"), VolumeIndex::new(v), name, t)
}

pub fn any_digits() -> ([u8; 3], usize) {
    let d: [u8; 3] = kani::any();
    kani::assume(d[0] >= b'0' && d[0] <= b'9' && d[1] >= b'0' && d[1] <= b'9' && d[2] >= b'0' && d[2] <= b'9');
    let n = (d[0] - b'0') as usize * 100 + (d[1] - b'0') as usize * 10 + (d[2] - b'0') as usize;
    (d, n)
}

fn vcp(cuts: Vec<ElevationDataBlock>) -> Message {
    // Message::new is crate-private; decode a header and replace the cut list is not possible
    // either (fields are pub): build by struct literal.
    Message {
        header: Header {
            message_size: 0,
            pattern_type: 2,
            pattern_number: 212,
            number_of_elevation_cuts: cuts.len() as u16,
            version: 0,
            clutter_map_group_number: 0,
            doppler_velocity_resolution: 2,
            pulse_width: 2,
            reserved_1: 0,
            vcp_sequencing: 0,
            vcp_supplemental_data: 0,
            reserved_2: 0,
        },
        elevations: cuts,
    }
}

/// ChunkIdentifier::sequence replaced by "whatever the harness chose": any usize or none.  That
/// over-approximates every possible chunk name; the parser itself is decided in C16 (c16_parse).
static mut STUB_SEQ: Option<usize> = None;
pub fn stub_sequence(_id: &ChunkIdentifier) -> Option<usize> {
    unsafe { STUB_SEQ }
}
pub fn set_stub_sequence(v: Option<usize>) {
    unsafe {
        STUB_SEQ = v;
    }
}

/// Estimate without history: none outside 1..=55 or past the last cut; +10 s after an end chunk;
/// otherwise + 11 s (contiguous surveillance), 7 s (constant phase), 4 s otherwise.
#[kani::proof]
#[kani::unwind(8)]
#[kani::stub(alloc::fmt::format, crate::stubs::fmt_format)]
#[kani::stub(nexrad_data::aws::realtime::ChunkIdentifier::sequence, stub_sequence)]
fn c19_estimate_default() {
    let seq_opt: Option<usize> = kani::any();
    unsafe {
        STUB_SEQ = seq_opt;
    }
    // the upload time is concrete: chrono's arithmetic on a symbolic instant does not finish here
    // (> 30 min) and is not what the property is about (instant arithmetic: C08)
    let secs: i64 = 1_723_552_410;
    let t = match DateTime::from_timestamp(secs, 0) {
        Some(t) => t,
        None => panic!("harness: timestamp"),
    };
    let prev = chunk_id([b'0', b'0', b'7'], b'I', 5, Some(t));
    // two cuts: first 3 chunks (2..=4), second 6 chunks (5..=10); waveform/channel symbolic
    let w: [u8; 2] = kani::any();
    let c: [u8; 2] = kani::any();
    let msg = vcp(vec![cut(0, w[0], c[0]), cut(1, w[1], c[1])]);
    let got = estimate_next_chunk_time(&prev, &msg, None);
    let want_secs: Option<i64> = match seq_opt {
        None => None,
        Some(seq) => {
            if seq < 1 || seq > 55 {
                None
            } else if seq == 55 {
                Some(10)
            } else if seq + 1 > 10 {
                None
            } else {
                let k = if seq + 1 <= 4 { 0 } else { 1 };
                Some(if w[k] == 1 { 11 } else if c[k] == 0 { 7 } else { 4 })
            }
        }
    };
    match (got, want_secs) {
        (None, None) => {}
        (Some(g), Some(s)) => {
            assert!(g.timestamp_millis() == (secs + s) * 1000, "C19: wrong next-chunk estimate");
            assert!(g >= t, "C19: estimate earlier than the previous upload time");
        }
        (Some(_), None) => panic!("C19: estimate given where none is expected"),
        (None, Some(_)) => panic!("C19: no estimate where one is expected"),
    }
    wit!(seq_opt == Some(55) && got.is_some());
    wit!(seq_opt == Some(4) && w[1] == 1);
    wit!(seq_opt == Some(9) && w[1] != 1 && c[1] == 0);
    wit!(seq_opt == Some(10) && got.is_none());
    wit!(seq_opt == Some(0));
    wit!(seq_opt.is_none());
    core::mem::forget((prev, msg));
}

/// The same on the REAL sequence parser (memchr -> naive loop, see stubs.rs): every three-digit
/// sequence field of the previous chunk's name.
#[kani::proof]
#[kani::unwind(24)]
#[kani::stub(alloc::fmt::format, crate::stubs::fmt_format)]
#[kani::stub(core::slice::memchr::memchr, crate::stubs::memchr_naive)]
#[kani::stub(core::slice::memchr::memrchr, crate::stubs::memrchr_naive)]
fn c19_estimate_default_real_parser() {
    let (digits, n) = any_digits();
    let seq_opt: Option<usize> = Some(n);
    // the upload time is concrete: chrono's arithmetic on a symbolic instant does not finish here
    // (> 30 min) and is not what the property is about (instant arithmetic: C08)
    let secs: i64 = 1_723_552_410;
    let t = match DateTime::from_timestamp(secs, 0) {
        Some(t) => t,
        None => panic!("harness: timestamp"),
    };
    let prev = chunk_id(digits, b'I', 5, Some(t));
    // two cuts: first 3 chunks (2..=4), second 6 chunks (5..=10); waveform/channel symbolic
    let w: [u8; 2] = kani::any();
    let c: [u8; 2] = kani::any();
    let msg = vcp(vec![cut(0, w[0], c[0]), cut(1, w[1], c[1])]);
    let got = estimate_next_chunk_time(&prev, &msg, None);
    let want_secs: Option<i64> = match seq_opt {
        None => None,
        Some(seq) => {
            if seq < 1 || seq > 55 {
                None
            } else if seq == 55 {
                Some(10)
            } else if seq + 1 > 10 {
                None
            } else {
                let k = if seq + 1 <= 4 { 0 } else { 1 };
                Some(if w[k] == 1 { 11 } else if c[k] == 0 { 7 } else { 4 })
            }
        }
    };
    match (got, want_secs) {
        (None, None) => {}
        (Some(g), Some(s)) => {
            assert!(g.timestamp_millis() == (secs + s) * 1000, "C19: wrong next-chunk estimate");
            assert!(g >= t, "C19: estimate earlier than the previous upload time");
        }
        (Some(_), None) => panic!("C19: estimate given where none is expected"),
        (None, Some(_)) => panic!("C19: no estimate where one is expected"),
    }
    wit!(seq_opt == Some(55) && got.is_some());
    wit!(seq_opt == Some(4) && w[1] == 1);
    wit!(seq_opt == Some(9) && w[1] != 1 && c[1] == 0);
    wit!(seq_opt == Some(10) && got.is_none());
    wit!(seq_opt == Some(0));
    wit!(seq_opt == Some(999));
    core::mem::forget((prev, msg));
}

/// Estimate WITH history: after 11 recorded samples under the characteristics of the next chunk,
/// the estimate is upload time + mean of the LAST TEN durations (integer ms) + (floor(mean attempts)
/// - 1) s; samples recorded under other characteristics do not count.  Window capped at 10.
#[kani::proof]
#[kani::unwind(24)]
#[kani::stub(alloc::fmt::format, crate::stubs::fmt_format)]
#[kani::stub(std::hash::RandomState::new, crate::c14::random_state_fixed)]
#[kani::stub(nexrad_data::aws::realtime::ChunkIdentifier::sequence, stub_sequence)]
fn c19_estimate_history() {
    set_stub_sequence(Some(2));
    use chrono::Duration;
    use nexrad_data::aws::realtime::{ChunkCharacteristics, ChunkTimingStats, ChunkType};
    use nexrad_decode::messages::volume_coverage_pattern::{ChannelConfiguration, WaveformType};
    let key = ChunkCharacteristics {
        chunk_type: ChunkType::Intermediate,
        waveform_type: WaveformType::CS,
        channel_configuration: ChannelConfiguration::ConstantPhase,
    };
    let other = ChunkCharacteristics {
        chunk_type: ChunkType::Intermediate,
        waveform_type: WaveformType::B,
        channel_configuration: ChannelConfiguration::ConstantPhase,
    };
    let mut stats = ChunkTimingStats::new();
    let d: [u16; 11] = kani::any(); // durations in ms, 0..=60000
    let a: [u8; 11] = kani::any(); // attempts 1..=5
    let mut i = 0;
    while i < 11 {
        kani::assume(d[i] <= 60_000 && a[i] >= 1 && a[i] <= 5);
        stats.add_timing(key, Duration::milliseconds(d[i] as i64), a[i] as usize);
        i += 1;
    }
    stats.add_timing(other, Duration::milliseconds(59_999), 5);
    let secs: i64 = 1_700_000_000;
    let t = match DateTime::from_timestamp(secs, 0) {
        Some(t) => t,
        None => panic!("harness"),
    };
    // previous chunk 002 -> next chunk 3 lies in the first cut (CS, constant phase)
    let prev = chunk_id([b'0', b'0', b'2'], b'I', 5, Some(t));
    let msg = vcp(vec![cut(0, 1, 0), cut(1, 2, 1)]);
    let got = estimate_next_chunk_time(&prev, &msg, Some(&stats));
    let mut sum_ms: i64 = 0;
    let mut sum_at: i64 = 0;
    let mut i = 1; // the first sample has been evicted
    while i < 11 {
        sum_ms += d[i] as i64;
        sum_at += a[i] as i64;
        i += 1;
    }
    let want_ms = secs * 1000 + sum_ms / 10 + (sum_at / 10 - 1) * 1000;
    match got {
        Some(g) => {
            assert!(g.timestamp_millis() == want_ms, "C19: history-based estimate (mean of last ten, attempts adjustment)");
            assert!(g >= t, "C19: estimate earlier than the previous upload time");
        }
        None => panic!("C19: no estimate although the next chunk has a cut"),
    }
    wit!(d[0] == 60_000 && d[1] == 0 && a[10] == 5);
    core::mem::forget((stats, prev, msg));
}
