//! C10 — message header: layout, type mapping and size semantics.
//! Input space: all 2^224 28-byte headers (no loop; complete).
use nexrad_decode::messages::decode_message_header;
use nexrad_decode::messages::message_header::MessageHeader;
use nexrad_decode::messages::MessageType;

fn any_header() -> ([u8; 28], MessageHeader) {
    let b: [u8; 28] = kani::any();
    let h = match decode_message_header(&mut &b[..]) {
        Ok(h) => h,
        Err(e) => {
            // 28 bytes always suffice for the 28-byte header
            core::mem::forget(e);
            panic!("C10: a full 28-byte header failed to decode");
        }
    };
    (b, h)
}

fn be16(b: &[u8], o: usize) -> u16 {
    u16::from_be_bytes([b[o], b[o + 1]])
}
fn be32(b: &[u8], o: usize) -> u32 {
    u32::from_be_bytes([b[o], b[o + 1], b[o + 2], b[o + 3]])
}

/// Every field comes from its ICD offset (12 RPG bytes, then the 16-byte ICD header).
#[kani::proof]
#[kani::stub(alloc::fmt::format, crate::stubs::fmt_format)]
fn c10_layout() {
    let (b, h) = any_header();
    assert!(h.segment_size == be16(&b, 12));
    assert!(h.redundant_channel == b[14]);
    assert!(h.message_type == b[15]);
    assert!(h.sequence_number == be16(&b, 16));
    assert!(h.date == be16(&b, 18));
    assert!(h.time == be32(&b, 20));
    assert!(h.segment_count == be16(&b, 24));
    assert!(h.segment_number == be16(&b, 26));
    wit!(h.segment_size == 0x1234 && h.time == 0x01020304, "witness: distinct bytes decode");
}

/// Harness-side table of the 29 defined type codes (ICD 2620002W Table II).
fn defined_type(code: u8) -> Option<MessageType> {
    Some(match code {
        1 => MessageType::RDADigitalRadarData,
        2 => MessageType::RDAStatusData,
        3 => MessageType::RDAPerformanceMaintenanceData,
        4 => MessageType::RDAConsoleMessage,
        5 => MessageType::RDAVolumeCoveragePattern,
        6 => MessageType::RDAControlCommands,
        7 => MessageType::RPGVolumeCoveragePattern,
        8 => MessageType::RPGClutterCensorZones,
        9 => MessageType::RPGRequestForData,
        10 => MessageType::RPGConsoleMessage,
        11 => MessageType::RDALoopBackTest,
        12 => MessageType::RPGLoopBackTest,
        13 => MessageType::RDAClutterFilterBypassMap,
        14 => MessageType::Spare1,
        15 => MessageType::RDAClutterFilterMap,
        16 => MessageType::ReservedFAARMSOnly1,
        17 => MessageType::ReservedFAARMSOnly2,
        18 => MessageType::RDAAdaptationData,
        20 => MessageType::Reserved1,
        21 => MessageType::Reserved2,
        22 => MessageType::Reserved3,
        23 => MessageType::Reserved4,
        24 => MessageType::ReservedFAARMSOnly3,
        25 => MessageType::ReservedFAARMSOnly4,
        26 => MessageType::ReservedFAARMSOnly5,
        29 => MessageType::Reserved5,
        31 => MessageType::RDADigitalRadarDataGenericFormat,
        32 => MessageType::RDAPRFData,
        33 => MessageType::RDALogData,
        _ => return None,
    })
}

/// Each defined code maps to its own type; every other code is preserved verbatim as Unknown.
/// Distinctness: two headers with different codes never report the same type.
#[kani::proof]
#[kani::stub(alloc::fmt::format, crate::stubs::fmt_format)]
fn c10_type_map() {
    let (b, h) = any_header();
    let code = b[15];
    match defined_type(code) {
        Some(t) => assert!(h.message_type() == t),
        None => assert!(h.message_type() == MessageType::Unknown(code)),
    }
    // the discriminant of a defined type is its code (repr(u8) enum): "its own message type"
    if let Some(t) = defined_type(code) {
        assert!(!matches!(t, MessageType::Unknown(_)));
    }
    let (b2, h2) = any_header();
    if b2[15] != code {
        assert!(h2.message_type() != h.message_type());
    }
    wit!(code == 31 && h.message_type() == MessageType::RDADigitalRadarDataGenericFormat);
    wit!(code == 19 && h.message_type() == MessageType::Unknown(19));
}

/// Fixed-capacity fmt sink: records what a Debug impl writes (no allocation, no format!).
pub struct Sink {
    pub buf: [u8; 32],
    pub len: usize,
}
impl core::fmt::Write for Sink {
    fn write_str(&mut self, s: &str) -> core::fmt::Result {
        let b = s.as_bytes();
        let mut i = 0;
        while i < b.len() {
            if self.len < 32 {
                self.buf[self.len] = b[i];
                self.len += 1;
            }
            i += 1;
        }
        Ok(())
    }
}
fn sink_is(s: &Sink, lit: &[u8]) -> bool {
    if s.len != lit.len() {
        return false;
    }
    let mut i = 0;
    while i < lit.len() {
        if s.buf[i] != lit[i] {
            return false;
        }
        i += 1;
    }
    true
}

/// The six defined redundant-channel codes map to their channels (identified by variant name,
/// because the enum lives in a private module) and distinct codes give distinct channels.
#[kani::proof]
#[kani::unwind(34)]
fn c10_channel() {
    use core::fmt::Write;
    let (b, h) = any_header();
    let c = b[14];
    kani::assume(c == 0 || c == 1 || c == 2 || c == 8 || c == 9 || c == 10);
    let ch = h.rda_redundant_channel();
    let mut s = Sink { buf: [0; 32], len: 0 };
    let _ = write!(s, "{:?}", ch);
    let want: &[u8] = match c {
        0 => b"LegacySingleChannel",
        1 => b"LegacyRedundantChannel1",
        2 => b"LegacyRedundantChannel2",
        8 => b"ORDASingleChannel",
        9 => b"ORDARedundantChannel1",
        _ => b"ORDARedundantChannel2",
    };
    assert!(sink_is(&s, want));
    let (b2, h2) = any_header();
    let c2 = b2[14];
    kani::assume(c2 == 0 || c2 == 1 || c2 == 2 || c2 == 8 || c2 == 9 || c2 == 10);
    assert!((h2.rda_redundant_channel() == ch) == (c2 == c));
    wit!(c == 10);
    wit!(c == 0);
}

/// Segmentation predicate, segment accessors and the plain size rule in both regimes.
#[kani::proof]
#[kani::stub(alloc::fmt::format, crate::stubs::fmt_format)]
fn c10_size_plain() {
    let (b, h) = any_header();
    let size = be16(&b, 12);
    let count = be16(&b, 24);
    let number = be16(&b, 26);
    assert!(h.segmented() == (size != 0xFFFF));
    if size != 0xFFFF {
        assert!(h.message_size_bytes() == 2 * size as u32);
        assert!(h.segment_count() == Some(count));
        assert!(h.segment_number() == Some(number));
    } else {
        assert!(h.message_size_bytes() == ((count as u32) << 16) | number as u32);
        assert!(h.segment_count().is_none());
        assert!(h.segment_number().is_none());
    }
    wit!(size == 0xFFFF && count == 1 && number == 0x2345, "witness: variable-length >64KiB");
    wit!(size == 40000, "witness: halfword count >= 32768");
}

/// The unit-typed accessors agree with the plain ones for every header and return for every size.
#[kani::proof]
#[kani::stub(alloc::fmt::format, crate::stubs::fmt_format)]
fn c10_size_uom() {
    use uom::si::information::byte;
    let (b, h) = any_header();
    let size = be16(&b, 12);
    let plain = h.message_size_bytes();
    let typed = h.message_size().get::<byte>();
    assert!(typed == plain as f64);
    match h.segment_size() {
        Some(s) => {
            assert!(size != 0xFFFF);
            assert!(s.get::<byte>() == (2 * size as u32) as f64);
        }
        None => assert!(size == 0xFFFF),
    }
    wit!(size == 0xFFFF);
    wit!(size >= 32768 && size != 0xFFFF);
}

/// Every accessor returns for every header (the channel accessor on its six defined codes).
#[kani::proof]
#[kani::stub(alloc::fmt::format, crate::stubs::fmt_format)]
fn c10_total() {
    let (b, h) = any_header();
    let _ = h.message_type();
    let _ = h.segmented();
    let _ = h.segment_count();
    let _ = h.segment_number();
    let _ = h.message_size_bytes();
    let _ = h.message_size();
    let _ = h.segment_size();
    let _ = h.date_time();
    let c = b[14];
    if c == 0 || c == 1 || c == 2 || c == 8 || c == 9 || c == 10 {
        let _ = h.rda_redundant_channel();
    }
    let h2 = h.clone();
    assert!(h2 == h);
    wit!(be16(&b, 12) == 0xFFFE);
}
