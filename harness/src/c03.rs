//! C03 — message streams are framed correctly: N messages in, N messages out.
use nexrad_decode::messages::{decode_messages, Message, MessageContents, MessageType};
use std::io::Cursor;

const FRAME: usize = 2432;

fn contents_kind(m: &Message) -> u8 {
    match m.contents() {
        MessageContents::RDAStatusData(_) => 2,
        MessageContents::DigitalRadarData(_) => 31,
        MessageContents::ClutterFilterMap(_) => 15,
        MessageContents::VolumeCoveragePattern(_) => 5,
        MessageContents::Other => 0,
    }
}

/// Writes a message header (12 RPG bytes + 16 ICD bytes) at `o`: symbolic except the type code.
fn put_header(b: &mut [u8], o: usize, ty: u8, hdr: &[u8; 28]) {
    let mut i = 0;
    while i < 28 {
        b[o + i] = hdr[i];
        i += 1;
    }
    b[o + 15] = ty;
}

fn check_header(m: &Message, ty: u8, hdr: &[u8; 28]) {
    let h = m.header();
    assert!(h.message_type == ty, "C03: message header type altered");
    assert!(h.segment_size == u16::from_be_bytes([hdr[12], hdr[13]]), "C03: header not intact");
    assert!(h.sequence_number == u16::from_be_bytes([hdr[16], hdr[17]]), "C03: header not intact");
    assert!(h.time == u32::from_be_bytes([hdr[20], hdr[21], hdr[22], hdr[23]]), "C03: header not intact");
    assert!(h.segment_number == u16::from_be_bytes([hdr[26], hdr[27]]), "C03: header not intact");
}

fn expected_kind(ty: u8) -> u8 {
    match ty {
        2 => 2,
        5 => 5,
        _ => 0,
    }
}

/// One fixed-length frame of any type code except 31 (all-zero body: a valid status message and a
/// valid 0-cut VCP), followed by a trailing fragment of 0..=27 symbolic bytes: exactly one message,
/// header intact, opaque placeholder exactly for types without a decoder.
#[kani::proof]
#[kani::unwind(30)]
#[kani::stub(alloc::fmt::format, crate::stubs::fmt_format)]
fn c03_one_frame_plus_fragment() {
    let mut b = [0u8; FRAME + 27];
    let hdr: [u8; 28] = kani::any();
    let ty: u8 = kani::any();
    kani::assume(ty != 31);
    put_header(&mut b, 0, ty, &hdr);
    let frag: [u8; 27] = kani::any();
    let k: usize = kani::any();
    kani::assume(k <= 27);
    let mut i = 0;
    while i < 27 {
        b[FRAME + i] = frag[i];
        i += 1;
    }
    let mut c = Cursor::new(&b[..FRAME + k]);
    let ms = match decode_messages(&mut c) {
        Ok(ms) => ms,
        Err(e) => {
            core::mem::forget(e);
            panic!("C03: a well-formed stream with a short trailing fragment must decode")
        }
    };
    assert!(ms.len() == 1, "C03: one frame in, one message out");
    check_header(&ms[0], ty, &hdr);
    assert!(contents_kind(&ms[0]) == expected_kind(ty), "C03: wrong contents kind for the type code");
    wit!(ty == 2 && k == 27);
    wit!(ty == 5);
    wit!(ty == 15 && k == 0);
    wit!(ty == 200);
    core::mem::forget(ms);
}
