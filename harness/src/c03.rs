//! C03 — message streams are framed correctly: N messages in, N messages out.
use nexrad_decode::messages::{decode_messages, Message, MessageContents, MessageType};
use std::io::Cursor;

const FRAME: usize = 2432;

fn contents_kind(m: &Message) -> u8 {
    match m.contents() {
        MessageContents::RDAStatusData(_) => 2,
        MessageContents::DigitalRadarData(_) => 31,
        MessageContents::ClutterFilterMap(_) => 15,
        MessageContents::VolumeCoveragePattern(_) => 5,
        MessageContents::Other => 0,
    }
}

/// Writes a message header (12 RPG bytes + 16 ICD bytes) at `o`: symbolic except the type code.
fn put_header(b: &mut [u8], o: usize, ty: u8, hdr: &[u8; 28]) {
    let mut i = 0;
    while i < 28 {
        b[o + i] = hdr[i];
        i += 1;
    }
    b[o + 15] = ty;
}

fn check_header(m: &Message, ty: u8, hdr: &[u8; 28]) {
    let h = m.header();
    assert!(h.message_type == ty, "C03: message header type altered");
    assert!(h.segment_size == u16::from_be_bytes([hdr[12], hdr[13]]), "C03: header not intact");
    assert!(h.sequence_number == u16::from_be_bytes([hdr[16], hdr[17]]), "C03: header not intact");
    assert!(h.time == u32::from_be_bytes([hdr[20], hdr[21], hdr[22], hdr[23]]), "C03: header not intact");
    assert!(h.segment_number == u16::from_be_bytes([hdr[26], hdr[27]]), "C03: header not intact");
}

fn expected_kind(ty: u8) -> u8 {
    match ty {
        2 => 2,
        5 => 5,
        _ => 0,
    }
}

// The type code of every frame is CONCRETE per harness: with a symbolic code CBMC walks into the status
// and the VCP decoder under every path (one frame: > 25 min, two: > 50 min / 23 GB), with a concrete
// code one frame costs 40 s.  The dispatch has three special cases (2, 5, 31) and a default; the
// representatives are 2, 5, 15 (the commented-out decoder), 0, 33 and 255.  Headers, fragments,
// truncation points and the type-31 contents stay symbolic.  All 253 opaque codes at once: thorough tier.

fn one_frame(ty: u8, frag: usize) {
    // `frag` = length of the trailing fragment (concrete: a symbolic length on top of the frame
    // costs > 16 GB); its bytes are symbolic
    let mut b = [0u8; FRAME + 27];
    let hdr: [u8; 28] = kani::any();
    put_header(&mut b, 0, ty, &hdr);
    if frag > 0 {
        let f: [u8; 27] = kani::any();
        let mut i = 0;
        while i < 27 {
            b[FRAME + i] = f[i];
            i += 1;
        }
    }
    let mut c = Cursor::new(&b[..FRAME + frag]);
    let ms = match decode_messages(&mut c) {
        Ok(ms) => ms,
        Err(e) => {
            core::mem::forget(e);
            panic!("C03: a well-formed stream with a short trailing fragment must decode")
        }
    };
    assert!(ms.len() == 1, "C03: one frame in, one message out");
    check_header(&ms[0], ty, &hdr);
    assert!(contents_kind(&ms[0]) == expected_kind(ty), "C03: wrong contents kind for the type code");
    wit!(ms.len() == 1);
    core::mem::forget(ms);
}

macro_rules! frame_harness {
    ($name:ident, $ty:expr, $frag:expr) => {
        #[kani::proof]
        #[kani::unwind(30)]
        #[kani::stub(alloc::fmt::format, crate::stubs::fmt_format)]
        fn $name() {
            one_frame($ty, $frag);
        }
    };
}
frame_harness!(c03_frame_t15_fragment27, 15, 27);
frame_harness!(c03_frame_t15_fragment1, 15, 1);
frame_harness!(c03_frame_t2_fragment13, 2, 13);
frame_harness!(c03_frame_t5, 5, 0);
frame_harness!(c03_frame_t0, 0, 0);
frame_harness!(c03_frame_t33_fragment27, 33, 27);
frame_harness!(c03_frame_t255, 255, 0);

/// One frame whose type code ranges over all 253 codes without a dedicated decoder (thorough).
#[kani::proof]
#[kani::unwind(30)]
#[kani::stub(alloc::fmt::format, crate::stubs::fmt_format)]
fn c03_one_opaque_frame_any_type() {
    let ty: u8 = kani::any();
    kani::assume(ty != 2 && ty != 5 && ty != 31);
    one_frame(ty, 0);
    wit!(ty == 0);
}

/// Writes a minimal contiguous type-31 message (message header + 32-byte data header with one
/// ELV block: 28 + 32 + 4 + 12 = 76 bytes) at `o`.
fn put_type31(b: &mut [u8], o: usize, hdr: &[u8; 28], el: u8) -> usize {
    put_header(b, o, 31, hdr);
    let h = o + 28;
    b[h + 22] = el;
    b[h + 31] = 1;
    b[h + 35] = 36;
    b[h + 36] = b'R';
    b[h + 37] = b'E';
    b[h + 38] = b'L';
    b[h + 39] = b'V';
    76
}

/// Two messages: [frame TY][type-31] or [type-31][frame TY]; headers and the elevation number are
/// symbolic.  Count, order, headers and contents kinds must be those of the messages decoded alone.
fn two_messages<const FRAME_FIRST: bool, const TY: u8>() {
    two_messages_h2::<FRAME_FIRST, TY, true>()
}

/// H2_SYM = false: the second message's header is concrete zeros (except its type), so that if the
/// first message is framed wrongly the bytes mistaken for the next header are concrete and the
/// misframing is decided instead of turning the dispatch symbolic (which CBMC does not get through).
fn two_messages_h2<const FRAME_FIRST: bool, const TY: u8, const H2_SYM: bool>() {
    let mut b = [0u8; FRAME + 76];
    let h1: [u8; 28] = kani::any();
    let h2: [u8; 28] = if H2_SYM { kani::any() } else { [0u8; 28] };
    let el: u8 = kani::any();
    if FRAME_FIRST {
        put_header(&mut b, 0, TY, &h1);
        put_type31(&mut b, FRAME, &h2, el);
    } else {
        put_type31(&mut b, 0, &h1, el);
        put_header(&mut b, 76, TY, &h2);
    }
    let mut c = Cursor::new(&b[..]);
    let ms = match decode_messages(&mut c) {
        Ok(ms) => ms,
        Err(e) => {
            core::mem::forget(e);
            panic!("C03: a well-formed two-message stream failed to decode")
        }
    };
    assert!(ms.len() == 2, "C03: two messages in, two messages out");
    let (fi, ri) = if FRAME_FIRST { (0, 1) } else { (1, 0) };
    check_header(&ms[fi], TY, if FRAME_FIRST { &h1 } else { &h2 });
    check_header(&ms[ri], 31, if FRAME_FIRST { &h2 } else { &h1 });
    assert!(contents_kind(&ms[fi]) == expected_kind(TY), "C03: wrong contents kind for the frame");
    match ms[ri].contents() {
        MessageContents::DigitalRadarData(d) => {
            assert!(d.header.elevation_number == el, "C03: type-31 message decoded from the wrong position");
            assert!(d.elevation_data_block.is_some(), "C03: type-31 block lost");
        }
        _ => panic!("C03: type-31 message surfaced as something else"),
    }
    wit!(el == 9);
    core::mem::forget(ms);
}

macro_rules! two_harness {
    ($name:ident, $first:expr, $ty:expr) => {
        #[kani::proof]
        #[kani::unwind(30)]
        #[kani::stub(alloc::fmt::format, crate::stubs::fmt_format)]
        #[kani::stub(<[u8; 4] as core::convert::TryFrom<&[u8]>>::try_from, crate::stubs::array_try_from)]
        fn $name() {
            two_messages::<$first, $ty>();
        }
    };
}
two_harness!(c03_frame15_then_type31, true, 15);

/// Twin of c03_type31_then_frame15 with a concrete second header (see two_messages_h2).
#[kani::proof]
#[kani::unwind(30)]
#[kani::stub(alloc::fmt::format, crate::stubs::fmt_format)]
#[kani::stub(<[u8; 4] as core::convert::TryFrom<&[u8]>>::try_from, crate::stubs::array_try_from)]
fn c03_type31_then_frame15_concrete_tail() {
    two_messages_h2::<false, 15, false>();
}
two_harness!(c03_type31_then_frame15, false, 15);
two_harness!(c03_type31_then_frame2, false, 2);

/// Two fixed-length frames of the SAME opaque type in a row with symbolic headers (any segment
/// count / number): two in, two out, each with its own header.
#[kani::proof]
#[kani::unwind(30)]
#[kani::stub(alloc::fmt::format, crate::stubs::fmt_format)]
fn c03_two_frames_same_type() {
    let mut b = [0u8; 2 * FRAME];
    let h1: [u8; 28] = kani::any();
    let h2: [u8; 28] = kani::any();
    put_header(&mut b, 0, 15, &h1);
    put_header(&mut b, FRAME, 15, &h2);
    let mut c = Cursor::new(&b[..]);
    let ms = match decode_messages(&mut c) {
        Ok(ms) => ms,
        Err(e) => {
            core::mem::forget(e);
            panic!("C03: a well-formed two-frame stream failed to decode")
        }
    };
    assert!(ms.len() == 2, "C03: two frames in, two messages out");
    check_header(&ms[0], 15, &h1);
    check_header(&ms[1], 15, &h2);
    wit!(h2[27] == 2);
    core::mem::forget(ms);
}

/// A stream cut inside a message body is an error, not a silently shortened list: one complete
/// frame followed by a second header (type TY) and K body bytes (K concrete: a symbolic cut point
/// costs > 20 GB; headers symbolic).
fn cut_inside_body<const TY: u8, const K: usize>() {
    let mut b = [0u8; 2 * FRAME];
    let h1: [u8; 28] = kani::any();
    let h2: [u8; 28] = kani::any();
    put_header(&mut b, 0, 15, &h1);
    put_header(&mut b, FRAME, TY, &h2);
    let mut c = Cursor::new(&b[..FRAME + 28 + K]);
    let r = decode_messages(&mut c);
    assert!(r.is_err(), "C03: a stream cut inside a message body must be an error");
    wit!(r.is_err());
    core::mem::forget(r);
}

macro_rules! cut_harness {
    ($name:ident, $ty:expr, $k:expr) => {
        #[kani::proof]
        #[kani::unwind(30)]
        #[kani::stub(alloc::fmt::format, crate::stubs::fmt_format)]
        fn $name() {
            cut_inside_body::<$ty, $k>();
        }
    };
}
cut_harness!(c03_cut_opaque_body_at_0, 13, 0);
cut_harness!(c03_cut_opaque_body_at_1200, 13, 1200);
cut_harness!(c03_cut_opaque_body_at_2403, 7, 2403);
cut_harness!(c03_cut_status_body_at_57, 2, 57);

/// A type-31 message of ODD length (one 8-bit REF moment with 3 gates: 28 + 32 + 4 + 28 + 3 = 95
/// bytes, symbolic message header, elevation number and gate bytes) followed by a type-15 frame with a
/// concrete header: the frame must be read from byte 95 exactly (a decoder that pads or aligns the end
/// of a radial misframes everything after it).
#[kani::proof]
#[kani::unwind(30)]
#[kani::stub(alloc::fmt::format, crate::stubs::fmt_format)]
#[kani::stub(<[u8; 4] as core::convert::TryFrom<&[u8]>>::try_from, crate::stubs::array_try_from)]
fn c03_type31_odd_length_then_frame15() {
    const T31: usize = 28 + 32 + 4 + 28 + 3;
    let mut b = [0u8; T31 + FRAME];
    let h1: [u8; 28] = kani::any();
    let el: u8 = kani::any();
    let g: [u8; 3] = kani::any();
    put_header(&mut b, 0, 31, &h1);
    let h = 28;
    b[h + 22] = el;
    b[h + 31] = 1;
    b[h + 35] = 36;
    let k = h + 36;
    b[k] = b'D';
    b[k + 1] = b'R';
    b[k + 2] = b'E';
    b[k + 3] = b'F';
    b[k + 9] = 3; // gates
    b[k + 19] = 8; // word size
    b[k + 28] = g[0];
    b[k + 29] = g[1];
    b[k + 30] = g[2];
    let mut h2 = [0u8; 28];
    h2[17] = 0x5A; // sequence number, to tell the header apart from zero padding
    h2[27] = 1;
    put_header(&mut b, T31, 15, &h2);
    let mut c = Cursor::new(&b[..]);
    let ms = match decode_messages(&mut c) {
        Ok(ms) => ms,
        Err(e) => {
            core::mem::forget(e);
            panic!("C03: a well-formed two-message stream failed to decode")
        }
    };
    assert!(ms.len() == 2, "C03: two messages in, two messages out");
    check_header(&ms[0], 31, &h1);
    check_header(&ms[1], 15, &h2);
    match ms[0].contents() {
        MessageContents::DigitalRadarData(d) => {
            assert!(d.header.elevation_number == el, "C03: type-31 message decoded from the wrong position");
            match &d.reflectivity_data_block {
                Some(r) => assert!(r.encoded_data.len() == 3 && r.encoded_data[0] == g[0] && r.encoded_data[2] == g[2], "C03: gate bytes"),
                None => panic!("C03: type-31 block lost"),
            }
        }
        _ => panic!("C03: type-31 message surfaced as something else"),
    }
    wit!(el == 9);
    core::mem::forget(ms);
}
