//! C01 — volume-to-scan conversion conserves every radial (hard-bounded; see DESIGN.md C01).
//! Everything from File::scan down to Sweep::from_radials is the real code; only libbz2 (C, FFI)
//! is replaced: Record::decompress -> "strip the 4-byte size prefix" (identity codec).
use nexrad_data::result::{Error, Result};
use nexrad_data::volume::{File, Record};

pub fn decompress_identity<'a: 'a, 'b: 'b>(r: &Record<'a>) -> Result<Record<'b>> {
    if !r.compressed() {
        return Err(Error::UncompressedDataError);
    }
    Ok(Record::new(r.data()[4..].to_vec()))
}

const FRAME: usize = 2432;
const RADIAL_MSG: usize = 28 + 32 + 4 + 52; // message header + type-31 header + 1 pointer + VOL

/// Writes one type-31 message (message header + data header + optional VOL block) at `o`.
fn put_radial(b: &mut [u8], o: usize, az: u16, el: u8, vcp: Option<u16>, date: u16, time: u32) -> usize {
    b[o + 15] = 31; // message type
    let h = o + 28;
    b[h..h + 4].copy_from_slice(b"KTLX");
    b[h + 4..h + 8].copy_from_slice(&time.to_be_bytes());
    b[h + 8..h + 10].copy_from_slice(&date.to_be_bytes());
    b[h + 10..h + 12].copy_from_slice(&az.to_be_bytes());
    b[h + 21] = 1; // radial status: intermediate
    b[h + 22] = el;
    match vcp {
        Some(v) => {
            b[h + 31] = 1; // one data block
            b[h + 35] = 36; // pointer
            b[h + 36] = b'R';
            b[h + 37..h + 40].copy_from_slice(b"VOL");
            b[h + 36 + 40..h + 36 + 42].copy_from_slice(&v.to_be_bytes());
            28 + 32 + 4 + 52
        }
        None => 28 + 32,
    }
}

fn scan_one<const META: bool, const VOL: bool, const L: usize>() {
    let mut b = [0u8; L];
    b[..4].copy_from_slice(b"AR2V");
    let az: u16 = kani::any();
    let el: u8 = kani::any();
    let vcp: u16 = kani::any();
    let date: u16 = 19_000; // the date conversion over all (date, time) pairs is C08/C07's subject
    let time: u32 = 43_200_000;
    // one LDM record: size prefix, then the message stream; its first 12 bytes are the ignored RPG
    // bytes of the first message header and carry the 'BZ' magic
    let mut o = 28;
    b[o] = b'B';
    b[o + 1] = b'Z';
    if META {
        b[o + 15] = 2; // an RDA status frame (all-zero body) in front of the radial
        o += FRAME;
    }
    let n = put_radial(&mut b, o, az, el, if VOL { Some(vcp) } else { None }, date, time);
    let end = o + n;
    assert!(end == L);
    let size = (end - 28) as i32;
    b[24..28].copy_from_slice(&size.to_be_bytes());
    let f = File::new(b.to_vec());
    let r = f.scan();
    if !VOL {
        assert!(matches!(r, Err(Error::MissingCoveragePattern)), "C01: a volume without a VOL block must report a missing coverage pattern");
    } else {
        let s = match r {
            Ok(s) => s,
            Err(e) => {
            core::mem::forget(e);
            panic!("C01: a well-formed volume failed to convert")
        }
        };
        assert!(s.coverage_pattern_number() == vcp, "C01: coverage pattern number is not the first VOL block's");
        let sw = s.sweeps();
        assert!(sw.len() == 1, "C01: one radial must give exactly one sweep (final/only elevation lost?)");
        assert!(sw[0].elevation_number() == el, "C01: sweep label");
        let rs = sw[0].radials();
        assert!(rs.len() == 1, "C01: radial lost or duplicated (metadata frames must not contribute)");
        assert!(rs[0].azimuth_number() == az && rs[0].elevation_number() == el, "C01: radial altered");
        assert!(rs[0].collection_timestamp() == (date as i64 - 1) * 86_400_000 + time as i64, "C01: radial time altered");
        wit!(el == 255 && az == 720);
        core::mem::forget(s);
    }
    core::mem::forget(f);
}

#[kani::proof]
#[kani::unwind(8)]
#[kani::stub(alloc::fmt::format, crate::stubs::fmt_format)]
#[kani::stub(<[u8; 4] as core::convert::TryFrom<&[u8]>>::try_from, crate::stubs::array_try_from)]
#[kani::stub(nexrad_data::volume::Record::decompress, decompress_identity)]
fn c01_one_radial() {
    scan_one::<false, true, { 28 + RADIAL_MSG }>();
}

#[kani::proof]
#[kani::unwind(8)]
#[kani::stub(alloc::fmt::format, crate::stubs::fmt_format)]
#[kani::stub(<[u8; 4] as core::convert::TryFrom<&[u8]>>::try_from, crate::stubs::array_try_from)]
#[kani::stub(nexrad_data::volume::Record::decompress, decompress_identity)]
fn c01_metadata_then_radial() {
    scan_one::<true, true, { 28 + FRAME + RADIAL_MSG }>();
}

#[kani::proof]
#[kani::unwind(8)]
#[kani::stub(alloc::fmt::format, crate::stubs::fmt_format)]
#[kani::stub(<[u8; 4] as core::convert::TryFrom<&[u8]>>::try_from, crate::stubs::array_try_from)]
#[kani::stub(nexrad_data::volume::Record::decompress, decompress_identity)]
fn c01_no_vol_block() {
    scan_one::<false, false, { 28 + 28 + 32 }>();
}

/// Two radials in one record, both carrying a VOL block with its own (symbolic) VCP number; the
/// elevation numbers are concrete (E1, E2) because a symbolic split of Vec<Radial> is beyond CBMC
/// (see C09), azimuth numbers and times are symbolic.  The scan must hold both radials in file
/// order, grouped into one or two sweeps, and its pattern number must be the FIRST block's.
fn scan_two<const E1: u8, const E2: u8>() {
    const L: usize = 28 + 2 * RADIAL_MSG;
    let mut b = [0u8; L];
    b[..4].copy_from_slice(b"AR2V");
    let az: [u16; 2] = kani::any();
    let vcp: [u16; 2] = kani::any();
    let time: [u32; 2] = [43_200_000, 43_200_040];
    b[28] = b'B';
    b[29] = b'Z';
    let n1 = put_radial(&mut b, 28, az[0], E1, Some(vcp[0]), 19_000, time[0]);
    let n2 = put_radial(&mut b, 28 + n1, az[1], E2, Some(vcp[1]), 19_000, time[1]);
    assert!(28 + n1 + n2 == L);
    let size = (L - 28) as i32;
    b[24..28].copy_from_slice(&size.to_be_bytes());
    let f = File::new(b.to_vec());
    let s = match f.scan() {
        Ok(s) => s,
        Err(e) => {
            core::mem::forget(e);
            panic!("C01: a well-formed two-radial volume failed to convert")
        }
    };
    assert!(s.coverage_pattern_number() == vcp[0], "C01: coverage pattern number must come from the FIRST volume block");
    let sw = s.sweeps();
    let want_sweeps = if E1 == E2 { 1 } else { 2 };
    assert!(sw.len() == want_sweeps, "C01: wrong number of sweeps (final elevation lost or runs not maximal)");
    // flatten in order
    let mut k = 0usize;
    let mut i = 0;
    while i < sw.len() {
        let rs = sw[i].radials();
        let mut j = 0;
        while j < rs.len() {
            assert!(k < 2, "C01: radial duplicated");
            assert!(rs[j].azimuth_number() == az[k], "C01: radials lost, duplicated or reordered");
            assert!(rs[j].elevation_number() == if k == 0 { E1 } else { E2 }, "C01: radial altered");
            assert!(sw[i].elevation_number() == rs[j].elevation_number(), "C01: sweep label");
            assert!(rs[j].collection_timestamp() == 18_999i64 * 86_400_000 + time[k] as i64, "C01: radial time altered");
            k += 1;
            j += 1;
        }
        i += 1;
    }
    assert!(k == 2, "C01: radial lost");
    wit!(vcp[0] == 212 && vcp[1] == 35);
    core::mem::forget(s);
    core::mem::forget(f);
}

#[kani::proof]
#[kani::unwind(8)]
#[kani::stub(alloc::fmt::format, crate::stubs::fmt_format)]
#[kani::stub(<[u8; 4] as core::convert::TryFrom<&[u8]>>::try_from, crate::stubs::array_try_from)]
#[kani::stub(nexrad_data::volume::Record::decompress, decompress_identity)]
fn c01_two_radials_same_elevation() {
    scan_two::<1, 1>();
}

#[kani::proof]
#[kani::unwind(8)]
#[kani::stub(alloc::fmt::format, crate::stubs::fmt_format)]
#[kani::stub(<[u8; 4] as core::convert::TryFrom<&[u8]>>::try_from, crate::stubs::array_try_from)]
#[kani::stub(nexrad_data::volume::Record::decompress, decompress_identity)]
fn c01_two_radials_two_elevations() {
    scan_two::<1, 2>();
}
