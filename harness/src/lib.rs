//! Proof harnesses over the real nexrad crates (Kani). One module per property.
#![allow(dead_code, unused_imports, unused_macros, clippy::all)]

/// Reachability (vacuity) witness: the driver requires every one to be SATISFIED.
#[cfg(not(feature = "nocover"))]
macro_rules! wit {
    ($($t:tt)*) => { kani::cover!($($t)*) };
}
#[cfg(feature = "nocover")]
macro_rules! wit {
    ($($t:tt)*) => {};
}

#[cfg(kani)]
mod stubs;
#[cfg(kani)]
mod c01;
#[cfg(kani)]
mod c02;
#[cfg(kani)]
mod c03;
#[cfg(kani)]
mod c04;
#[cfg(kani)]
mod c05;
#[cfg(kani)]
mod c06;
#[cfg(kani)]
mod c07;
#[cfg(kani)]
mod c08;
#[cfg(kani)]
mod c09;
#[cfg(kani)]
mod c10;
#[cfg(kani)]
mod c11;
#[cfg(kani)]
mod c12;
#[cfg(kani)]
mod c13;
#[cfg(kani)]
mod c14;
#[cfg(kani)]
mod c15;
#[cfg(kani)]
mod c16;
#[cfg(kani)]
mod c19;
