//! Proof harnesses over the real nexrad crates (Kani). One module per property.
#![allow(dead_code, unused_imports, unused_macros, clippy::all)]

/// Reachability (vacuity) witness: the driver requires every one to be SATISFIED.
#[cfg(not(feature = "nocover"))]
macro_rules! wit {
    ($($t:tt)*) => { kani::cover!($($t)*) };
}
#[cfg(feature = "nocover")]
macro_rules! wit {
    ($($t:tt)*) => {};
}

#[cfg(kani)]
mod stubs;
#[cfg(kani)]
mod c01;
#[cfg(kani)]
mod c02;
#[cfg(kani)]
mod c03;
#[cfg(kani)]
mod c04;
#[cfg(kani)]
mod c05;
#[cfg(kani)]
mod c06;
#[cfg(kani)]
mod c07;
#[cfg(kani)]
mod c08;
#[cfg(kani)]
mod c09;
#[cfg(kani)]
mod c10;
#[cfg(kani)]
mod c11;
#[cfg(kani)]
mod c12;
#[cfg(kani)]
mod c13;
#[cfg(kani)]
mod c14;
#[cfg(kani)]
mod c15;
#[cfg(kani)]
mod c16;
#[cfg(kani)]
mod c19;

/// Native replay only (`cargo kani playback` builds this crate as a test binary): a global
/// allocator that records the largest single request, so that the allocation cap asserted by the
/// C04 stubs under verification is observable when a counterexample is replayed against the real code.
#[cfg(test)]
pub mod native_alloc {
    use std::alloc::{GlobalAlloc, Layout, System};
    use std::sync::atomic::{AtomicUsize, Ordering::Relaxed};
    static MAX: AtomicUsize = AtomicUsize::new(0);
    pub struct Recording;
    unsafe impl GlobalAlloc for Recording {
        unsafe fn alloc(&self, l: Layout) -> *mut u8 {
            MAX.fetch_max(l.size(), Relaxed);
            System.alloc(l)
        }
        unsafe fn alloc_zeroed(&self, l: Layout) -> *mut u8 {
            MAX.fetch_max(l.size(), Relaxed);
            System.alloc_zeroed(l)
        }
        unsafe fn realloc(&self, p: *mut u8, l: Layout, n: usize) -> *mut u8 {
            MAX.fetch_max(n, Relaxed);
            System.realloc(p, l, n)
        }
        unsafe fn dealloc(&self, p: *mut u8, l: Layout) {
            System.dealloc(p, l)
        }
    }
    #[global_allocator]
    static A: Recording = Recording;
    pub fn max_request() -> usize {
        MAX.load(Relaxed)
    }
}
