//! Proof harnesses over the real nexrad crates (Kani). One module per property.
#![allow(dead_code, unused_imports, unused_macros, clippy::all)]

/// Reachability (vacuity) witness: the driver requires every one to be SATISFIED.
#[cfg(not(feature = "nocover"))]
macro_rules! wit {
    ($($t:tt)*) => { kani::cover!($($t)*) };
}
#[cfg(feature = "nocover")]
macro_rules! wit {
    ($($t:tt)*) => {};
}

#[cfg(kani)]
mod stubs;
#[cfg(kani)]
mod c10;
