//! C14 — message summaries partition the message list and count it faithfully.
//! Lists of N messages whose *kinds* are symbolic (radial / status / VCP / other), with symbolic
//! elevation numbers, times of day and opaque type codes; compared against an independent single
//! pass written here.
use chrono::{DateTime, Utc};
use nexrad_decode::messages::digital_radar_data;
use nexrad_decode::messages::message_header::MessageHeader;
use nexrad_decode::messages::{decode_message_header, Message, MessageContents, MessageType};
use nexrad_decode::summarize;
use nexrad_decode::verif_hooks::message_unsegmented;

/// std::hash::RandomState::new reads OS randomness (FFI); fixed SipHash keys instead.
pub fn random_state_fixed() -> std::hash::RandomState {
    unsafe { core::mem::transmute::<[u64; 2], std::hash::RandomState>([0x0123_4567_89ab_cdef, 0x0fed_cba9_8765_4321]) }
}

const DAY: u16 = 19_000; // 2022-01-08; the date conversion itself is C08's subject

fn header(ty: u8, ms: u32) -> MessageHeader {
    let mut b = [0u8; 28];
    b[12] = 0x04;
    b[13] = 0xB8;
    b[15] = ty;
    b[18..20].copy_from_slice(&DAY.to_be_bytes());
    b[20..24].copy_from_slice(&ms.to_be_bytes());
    b[25] = 1;
    b[27] = 1;
    match decode_message_header(&mut &b[..]) {
        Ok(h) => h,
        Err(e) => {
            core::mem::forget(e);
            panic!("harness: header")
        }
    }
}

fn radial(el: u8, az: f32, has_ref: bool) -> MessageContents {
    let h = digital_radar_data::Header {
        radar_identifier: *b"KTLX",
        time: 0,
        date: DAY,
        azimuth_number: 1,
        azimuth_angle: az,
        compression_indicator: 0,
        spare: 0,
        radial_length: 0,
        azimuth_resolution_spacing: 1,
        radial_status: 1,
        elevation_number: el,
        cut_sector_number: 0,
        elevation_angle: 0.5,
        radial_spot_blanking_status: 0,
        azimuth_indexing_mode: 0,
        data_block_count: 0,
    };
    let _ = has_ref;
    MessageContents::DigitalRadarData(Box::new(digital_radar_data::Message {
        header: h,
        volume_data_block: None,
        elevation_data_block: None,
        radial_data_block: None,
        reflectivity_data_block: None,
        velocity_data_block: None,
        spectrum_width_data_block: None,
        differential_reflectivity_data_block: None,
        differential_phase_data_block: None,
        correlation_coefficient_data_block: None,
        specific_diff_phase_data_block: None,
    }))
}

fn status() -> MessageContents {
    let mut b = [0u8; 120];
    let set = |b: &mut [u8; 120], hw: usize, v: u16| {
        b[2 * (hw - 1)] = (v >> 8) as u8;
        b[2 * (hw - 1) + 1] = v as u8;
    };
    set(&mut b, 1, 16); // operate
    set(&mut b, 2, 2); // on-line
    set(&mut b, 3, 8); // either
    set(&mut b, 4, 2); // utility power
    set(&mut b, 11, 4); // operational
    set(&mut b, 12, 2); // super res enabled
    set(&mut b, 14, 2); // AVSET enabled
    set(&mut b, 24, 3); // TPS ok
    match nexrad_decode::messages::rda_status_data::decode_rda_status_message(&mut &b[..]) {
        Ok(m) => MessageContents::RDAStatusData(Box::new(m)),
        Err(e) => {
            core::mem::forget(e);
            panic!("harness: status")
        }
    }
}

fn vcp() -> MessageContents {
    let b = [0u8; 22];
    match nexrad_decode::messages::volume_coverage_pattern::decode_volume_coverage_pattern(&mut &b[..]) {
        Ok(m) => MessageContents::VolumeCoveragePattern(Box::new(m)),
        Err(e) => {
            core::mem::forget(e);
            panic!("harness: vcp")
        }
    }
}

#[derive(Clone, Copy)]
struct Spec {
    kind: u8, // 0 radial, 1 status, 2 vcp, 3 other
    el: u8,
    ty: u8,
    ms: u32,
}

fn summarize_n<const N: usize>() {
    let mut spec = [Spec { kind: 0, el: 0, ty: 0, ms: 0 }; N];
    let mut msgs: Vec<Message> = Vec::with_capacity(N);
    let mut i = 0;
    while i < N {
        let kind: u8 = kani::any();
        kani::assume(kind <= 3);
        let el: u8 = kani::any();
        let ty: u8 = kani::any();
        kani::assume(ty != 2 && ty != 5 && ty != 31);
        // times of day are concrete and NOT monotone (chrono on symbolic instants does not finish
        // here; instant arithmetic is C08's subject): 5 s, 9 s, 7 s, 3 s
        let ms: u32 = [5_000u32, 9_000, 7_000, 3_000][i % 4];
        spec[i] = Spec { kind, el, ty, ms };
        let (t, c) = match kind {
            0 => (31u8, radial(el, i as f32, false)),
            1 => (2, status()),
            2 => (5, vcp()),
            _ => (ty, MessageContents::Other),
        };
        msgs.push(message_unsegmented(header(t, ms), c));
        i += 1;
    }
    let s = summarize::messages(&msgs);
    let g = &s.message_groups;
    // tiling, spans, maximal runs
    let mut next = 0usize;
    let mut k = 0;
    while k < g.len() {
        let gr = &g[k];
        assert!(gr.start_message_index == next, "C14: gap or overlap between groups");
        assert!(gr.end_message_index >= gr.start_message_index && gr.end_message_index < N, "C14: group end index");
        assert!(gr.message_count == gr.end_message_index - gr.start_message_index + 1, "C14: message_count != index span");
        let first = spec[gr.start_message_index];
        let mut j = gr.start_message_index;
        while j <= gr.end_message_index {
            let sj = spec[j];
            assert!(sj.kind == first.kind, "C14: group mixes message kinds");
            if first.kind == 0 {
                assert!(sj.el == first.el, "C14: radial group mixes elevation numbers");
            }
            if first.kind == 3 {
                assert!(sj.ty == first.ty, "C14: group mixes message types");
            }
            j += 1;
        }
        if first.kind == 1 || first.kind == 2 {
            assert!(gr.message_count == 1, "C14: every status and VCP message forms its own group");
        }
        // maximality: the next message (if any) could not have continued this group
        if gr.end_message_index + 1 < N {
            let nx = spec[gr.end_message_index + 1];
            let could = match first.kind {
                0 => nx.kind == 0 && nx.el == first.el,
                3 => nx.kind == 3 && nx.ty == first.ty,
                _ => false,
            };
            assert!(!could, "C14: group is not a maximal run");
        }
        // type, elevation, continuation flag, first/last azimuth and time
        let want_type = match first.kind {
            0 => MessageType::RDADigitalRadarDataGenericFormat,
            1 => MessageType::RDAStatusData,
            2 => MessageType::RDAVolumeCoveragePattern,
            _ => header(first.ty, 1).message_type(),
        };
        assert!(gr.message_type == want_type, "C14: group message type");
        if first.kind == 0 {
            assert!(gr.elevation_number == Some(first.el), "C14: group elevation number");
            let mut earlier = false;
            let mut q = 0;
            while q < gr.start_message_index {
                earlier |= spec[q].kind == 0 && spec[q].el == first.el;
                q += 1;
            }
            assert!(gr.is_continued == earlier, "C14: continuation flag");
            assert!(gr.start_azimuth == Some(gr.start_message_index as f32), "C14: first azimuth");
            assert!(gr.end_azimuth == Some(gr.end_message_index as f32), "C14: last azimuth");
        } else {
            assert!(!gr.is_continued && gr.elevation_number.is_none());
        }
        let t0 = header(1, spec[gr.start_message_index].ms).date_time();
        let t1 = header(1, spec[gr.end_message_index].ms).date_time();
        assert!(gr.start_time == t0, "C14: group start time is the first member's");
        assert!(gr.end_time == t1, "C14: group end time is the last member's");
        next = gr.end_message_index + 1;
        k += 1;
    }
    assert!(next == N, "C14: groups do not cover the whole list (last group lost?)");
    // collection-time range over timestamped radial and status messages
    let mut lo: Option<u32> = None;
    let mut hi: Option<u32> = None;
    let mut i = 0;
    while i < N {
        if spec[i].kind <= 1 {
            lo = Some(match lo { Some(x) if x <= spec[i].ms => x, _ => spec[i].ms });
            hi = Some(match hi { Some(x) if x >= spec[i].ms => x, _ => spec[i].ms });
        }
        i += 1;
    }
    let to_dt = |o: Option<u32>| -> Option<DateTime<Utc>> { o.and_then(|ms| header(1, ms).date_time()) };
    assert!(s.earliest_collection_time == to_dt(lo), "C14: earliest collection time");
    assert!(s.latest_collection_time == to_dt(hi), "C14: latest collection time");
    assert!(s.volume_coverage_patterns.is_empty(), "C14: VCP set must be empty without volume blocks");
    wit!(g.len() == N);
    wit!(N < 2 || g.len() == 1);
    core::mem::forget(s);
    core::mem::forget(msgs);
}

macro_rules! sum_harness {
    ($name:ident, $n:expr, $u:expr) => {
        #[kani::proof]
        #[kani::unwind($u)]
        #[kani::stub(alloc::fmt::format, crate::stubs::fmt_format)]
        #[kani::stub(std::hash::RandomState::new, random_state_fixed)]
        fn $name() {
            summarize_n::<$n>();
        }
    };
}
sum_harness!(c14_summary_n0, 0, 4);
sum_harness!(c14_summary_n1, 1, 8);
sum_harness!(c14_summary_n2, 2, 8);
sum_harness!(c14_summary_n3, 3, 8);

/// Probe: a fully concrete interleaving R(1) R(1) S R(1) O(13) O(13).
#[kani::proof]
#[kani::unwind(10)]
#[kani::stub(alloc::fmt::format, crate::stubs::fmt_format)]
#[kani::stub(std::hash::RandomState::new, random_state_fixed)]
fn c14_probe_concrete() {
    let mut msgs: Vec<Message> = Vec::with_capacity(6);
    msgs.push(message_unsegmented(header(31, 5_000), radial(1, 0.0, false)));
    msgs.push(message_unsegmented(header(31, 9_000), radial(1, 1.0, false)));
    msgs.push(message_unsegmented(header(2, 7_000), status()));
    msgs.push(message_unsegmented(header(31, 3_000), radial(1, 3.0, false)));
    msgs.push(message_unsegmented(header(13, 4_000), MessageContents::Other));
    msgs.push(message_unsegmented(header(13, 4_500), MessageContents::Other));
    let s = summarize::messages(&msgs);
    let g = &s.message_groups;
    assert!(g.len() == 4, "C14: groups");
    assert!(g[0].start_message_index == 0 && g[0].end_message_index == 1 && g[0].message_count == 2 && !g[0].is_continued);
    assert!(g[1].start_message_index == 2 && g[1].message_count == 1);
    assert!(g[2].start_message_index == 3 && g[2].end_message_index == 3 && g[2].is_continued);
    assert!(g[3].start_message_index == 4 && g[3].end_message_index == 5 && g[3].message_count == 2);
    wit!(g.len() == 4);
    core::mem::forget(s);
    core::mem::forget(msgs);
}
