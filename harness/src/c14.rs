//! C14 — message summaries partition the message list and count it faithfully.
//! Lists of N messages whose *kinds* are symbolic (radial / status / VCP / other), with symbolic
//! elevation numbers, times of day and opaque type codes; compared against an independent single
//! pass written here.
use chrono::{DateTime, Utc};
use nexrad_decode::messages::digital_radar_data;
use nexrad_decode::messages::message_header::MessageHeader;
use nexrad_decode::messages::{decode_message_header, Message, MessageContents, MessageType};
use nexrad_decode::summarize;
use nexrad_decode::verif_hooks::message_unsegmented;

/// std::hash::RandomState::new reads OS randomness (FFI); fixed SipHash keys instead.
pub fn random_state_fixed() -> std::hash::RandomState {
    unsafe { core::mem::transmute::<[u64; 2], std::hash::RandomState>([0x0123_4567_89ab_cdef, 0x0fed_cba9_8765_4321]) }
}

const DAY: u16 = 19_000; // 2022-01-08; the date conversion itself is C08's subject

fn header(ty: u8, ms: u32) -> MessageHeader {
    let mut b = [0u8; 28];
    b[12] = 0x04;
    b[13] = 0xB8;
    b[15] = ty;
    b[18..20].copy_from_slice(&DAY.to_be_bytes());
    b[20..24].copy_from_slice(&ms.to_be_bytes());
    b[25] = 1;
    b[27] = 1;
    match decode_message_header(&mut &b[..]) {
        Ok(h) => h,
        Err(e) => {
            core::mem::forget(e);
            panic!("harness: header")
        }
    }
}

fn radial(el: u8, az: f32, has_ref: bool) -> MessageContents {
    let h = digital_radar_data::Header {
        radar_identifier: *b"KTLX",
        time: 0,
        date: DAY,
        azimuth_number: 1,
        azimuth_angle: az,
        compression_indicator: 0,
        spare: 0,
        radial_length: 0,
        azimuth_resolution_spacing: 1,
        radial_status: 1,
        elevation_number: el,
        cut_sector_number: 0,
        elevation_angle: 0.5,
        radial_spot_blanking_status: 0,
        azimuth_indexing_mode: 0,
        data_block_count: 0,
    };
    let _ = has_ref;
    MessageContents::DigitalRadarData(Box::new(digital_radar_data::Message {
        header: h,
        volume_data_block: None,
        elevation_data_block: None,
        radial_data_block: None,
        reflectivity_data_block: None,
        velocity_data_block: None,
        spectrum_width_data_block: None,
        differential_reflectivity_data_block: None,
        differential_phase_data_block: None,
        correlation_coefficient_data_block: None,
        specific_diff_phase_data_block: None,
    }))
}

fn status() -> MessageContents {
    let mut b = [0u8; 120];
    let set = |b: &mut [u8; 120], hw: usize, v: u16| {
        b[2 * (hw - 1)] = (v >> 8) as u8;
        b[2 * (hw - 1) + 1] = v as u8;
    };
    set(&mut b, 1, 16); // operate
    set(&mut b, 2, 2); // on-line
    set(&mut b, 3, 8); // either
    set(&mut b, 4, 2); // utility power
    set(&mut b, 11, 4); // operational
    set(&mut b, 12, 2); // super res enabled
    set(&mut b, 14, 2); // AVSET enabled
    set(&mut b, 24, 3); // TPS ok
    match nexrad_decode::messages::rda_status_data::decode_rda_status_message(&mut &b[..]) {
        Ok(m) => MessageContents::RDAStatusData(Box::new(m)),
        Err(e) => {
            core::mem::forget(e);
            panic!("harness: status")
        }
    }
}

fn vcp() -> MessageContents {
    let b = [0u8; 22];
    match nexrad_decode::messages::volume_coverage_pattern::decode_volume_coverage_pattern(&mut &b[..]) {
        Ok(m) => MessageContents::VolumeCoveragePattern(Box::new(m)),
        Err(e) => {
            core::mem::forget(e);
            panic!("harness: vcp")
        }
    }
}

#[derive(Clone, Copy)]
struct Spec {
    kind: u8, // 0 radial, 1 status, 2 vcp, 3 other
    el: u8,
    ty: u8,
    ms: u32,
}

fn summarize_n<const N: usize>() {
    summarize_kinds::<N>(None)
}

/// `kinds` = Some(pattern): the message KINDS are concrete per harness (dispatch keys must be concrete,
/// DESIGN.md A.2) while elevation numbers and opaque type codes stay symbolic, so one query decides
/// every grouping / continuation outcome of that kind pattern.
fn summarize_kinds<const N: usize>(kinds: Option<[u8; N]>) {
    summarize_spec::<N>(kinds, None, None)
}

/// `els` / `tys` = Some(labels): concrete elevation numbers / opaque type codes as well (a symbolic
/// equality that decides whether a group continues makes the group Vec grow under a symbolic
/// condition: c14_pat_rr ran out of 30 GB in CBMC's propositional reduction).  Azimuth angles are
/// symbolic (any non-NaN f32) in every variant.
fn summarize_spec<const N: usize>(kinds: Option<[u8; N]>, els: Option<[u8; N]>, tys: Option<[u8; N]>) {
    let mut spec = [Spec { kind: 0, el: 0, ty: 0, ms: 0 }; N];
    let mut msgs: Vec<Message> = Vec::with_capacity(N);
    let mut azs = [0f32; N];
    let mut i = 0;
    while i < N {
        let kind: u8 = match kinds {
            Some(k) => k[i],
            None => kani::any(),
        };
        kani::assume(kind <= 3);
        let el: u8 = match els {
            Some(e) => e[i],
            None => kani::any(),
        };
        let ty: u8 = match tys {
            Some(t) => t[i],
            None => kani::any(),
        };
        kani::assume(ty != 2 && ty != 5 && ty != 31);
        let az: f32 = kani::any();
        kani::assume(!az.is_nan());
        azs[i] = az;
        // times of day are concrete and NOT monotone (chrono on symbolic instants does not finish
        // here; instant arithmetic is C08's subject): 5 s, 9 s, 7 s, 3 s
        let ms: u32 = [5_000u32, 9_000, 7_000, 3_000][i % 4];
        spec[i] = Spec { kind, el, ty, ms };
        let (t, c) = match kind {
            0 => (31u8, radial(el, az, false)),
            1 => (2, status()),
            2 => (5, vcp()),
            _ => (ty, MessageContents::Other),
        };
        msgs.push(message_unsegmented(header(t, ms), c));
        i += 1;
    }
    let s = summarize::messages(&msgs);
    let g = &s.message_groups;
    // tiling, spans, maximal runs
    let mut next = 0usize;
    let mut k = 0;
    while k < g.len() {
        let gr = &g[k];
        assert!(gr.start_message_index == next, "C14: gap or overlap between groups");
        assert!(gr.end_message_index >= gr.start_message_index && gr.end_message_index < N, "C14: group end index");
        assert!(gr.message_count == gr.end_message_index - gr.start_message_index + 1, "C14: message_count != index span");
        let first = spec[gr.start_message_index];
        let mut j = gr.start_message_index;
        while j <= gr.end_message_index {
            let sj = spec[j];
            assert!(sj.kind == first.kind, "C14: group mixes message kinds");
            if first.kind == 0 {
                assert!(sj.el == first.el, "C14: radial group mixes elevation numbers");
            }
            if first.kind == 3 {
                assert!(sj.ty == first.ty, "C14: group mixes message types");
            }
            j += 1;
        }
        if first.kind == 1 || first.kind == 2 {
            assert!(gr.message_count == 1, "C14: every status and VCP message forms its own group");
        }
        // maximality: the next message (if any) could not have continued this group
        if gr.end_message_index + 1 < N {
            let nx = spec[gr.end_message_index + 1];
            let could = match first.kind {
                0 => nx.kind == 0 && nx.el == first.el,
                3 => nx.kind == 3 && nx.ty == first.ty,
                _ => false,
            };
            assert!(!could, "C14: group is not a maximal run");
        }
        // type, elevation, continuation flag, first/last azimuth and time
        let want_type = match first.kind {
            0 => MessageType::RDADigitalRadarDataGenericFormat,
            1 => MessageType::RDAStatusData,
            2 => MessageType::RDAVolumeCoveragePattern,
            _ => header(first.ty, 1).message_type(),
        };
        assert!(gr.message_type == want_type, "C14: group message type");
        if first.kind == 0 {
            assert!(gr.elevation_number == Some(first.el), "C14: group elevation number");
            let mut earlier = false;
            let mut q = 0;
            while q < gr.start_message_index {
                earlier |= spec[q].kind == 0 && spec[q].el == first.el;
                q += 1;
            }
            assert!(gr.is_continued == earlier, "C14: continuation flag");
            assert!(gr.start_azimuth == Some(azs[gr.start_message_index]), "C14: first azimuth");
            assert!(gr.end_azimuth == Some(azs[gr.end_message_index]), "C14: last azimuth");
        } else {
            assert!(!gr.is_continued && gr.elevation_number.is_none());
        }
        let t0 = header(1, spec[gr.start_message_index].ms).date_time();
        let t1 = header(1, spec[gr.end_message_index].ms).date_time();
        assert!(gr.start_time == t0, "C14: group start time is the first member's");
        assert!(gr.end_time == t1, "C14: group end time is the last member's");
        next = gr.end_message_index + 1;
        k += 1;
    }
    assert!(next == N, "C14: groups do not cover the whole list (last group lost?)");
    // collection-time range over timestamped radial and status messages
    let mut lo: Option<u32> = None;
    let mut hi: Option<u32> = None;
    let mut i = 0;
    while i < N {
        if spec[i].kind <= 1 {
            lo = Some(match lo { Some(x) if x <= spec[i].ms => x, _ => spec[i].ms });
            hi = Some(match hi { Some(x) if x >= spec[i].ms => x, _ => spec[i].ms });
        }
        i += 1;
    }
    let to_dt = |o: Option<u32>| -> Option<DateTime<Utc>> { o.and_then(|ms| header(1, ms).date_time()) };
    assert!(s.earliest_collection_time == to_dt(lo), "C14: earliest collection time");
    assert!(s.latest_collection_time == to_dt(hi), "C14: latest collection time");
    assert!(s.volume_coverage_patterns.is_empty(), "C14: VCP set must be empty without volume blocks");
    // witnesses must sit in code that is reachable in every instantiation
    let w1 = if kinds.is_none() { g.len() == N } else { g.len() >= 1 };
    let w2 = kinds.is_some() || N < 2 || g.len() == 1;
    wit!(w1);
    wit!(w2);
    core::mem::forget(s);
    core::mem::forget(msgs);
}

macro_rules! pat_harness {
    ($name:ident, $n:expr, $pat:expr, $u:expr) => {
        #[kani::proof]
        #[kani::unwind($u)]
        #[kani::stub(alloc::fmt::format, crate::stubs::fmt_format)]
        #[kani::stub(std::hash::RandomState::new, random_state_fixed)]
        fn $name() {
            summarize_kinds::<$n>(Some($pat));
        }
    };
}
macro_rules! lab_harness {
    ($name:ident, $n:expr, $pat:expr, $els:expr, $tys:expr, $u:expr) => {
        #[kani::proof]
        #[kani::unwind($u)]
        #[kani::stub(alloc::fmt::format, crate::stubs::fmt_format)]
        #[kani::stub(std::hash::RandomState::new, random_state_fixed)]
        fn $name() {
            summarize_spec::<$n>(Some($pat), Some($els), Some($tys));
        }
    };
}
// concrete kinds, elevation labels and type codes; symbolic azimuth angles
lab_harness!(c14_lab_r1r1r2r1, 4, [0, 0, 0, 0], [1, 1, 2, 1], [0, 0, 0, 0], 8);
lab_harness!(c14_lab_r1r2r1r1, 4, [0, 0, 0, 0], [1, 2, 1, 1], [0, 0, 0, 0], 8);
lab_harness!(c14_lab_r1o13o13r1, 4, [0, 3, 3, 0], [1, 0, 0, 1], [0, 13, 13, 0], 8);
lab_harness!(c14_lab_sr3r3v, 4, [1, 0, 0, 2], [0, 3, 3, 0], [0, 0, 0, 0], 8);
lab_harness!(c14_lab_o7o9r0r0, 4, [3, 3, 0, 0], [0, 0, 0, 0], [7, 9, 0, 0], 8);
lab_harness!(c14_lab_r2r2r2sr2r5, 6, [0, 0, 0, 1, 0, 0], [2, 2, 2, 0, 2, 5], [0, 0, 0, 0, 0, 0], 10);
// R = radial (symbolic elevation number), S = status, V = VCP, O = other (symbolic type code)
pat_harness!(c14_pat_rr, 2, [0, 0], 8);
pat_harness!(c14_pat_rrr, 3, [0, 0, 0], 8);
pat_harness!(c14_pat_rsr, 3, [0, 1, 0], 8);
pat_harness!(c14_pat_rvr, 3, [0, 2, 0], 8);
pat_harness!(c14_pat_oor, 3, [3, 3, 0], 8);
pat_harness!(c14_pat_ssv, 3, [1, 1, 2], 8);
pat_harness!(c14_pat_rror, 4, [0, 0, 3, 0], 8);
pat_harness!(c14_pat_rrrr, 4, [0, 0, 0, 0], 8);

macro_rules! sum_harness {
    ($name:ident, $n:expr, $u:expr) => {
        #[kani::proof]
        #[kani::unwind($u)]
        #[kani::stub(alloc::fmt::format, crate::stubs::fmt_format)]
        #[kani::stub(std::hash::RandomState::new, random_state_fixed)]
        fn $name() {
            summarize_n::<$n>();
        }
    };
}
sum_harness!(c14_summary_n0, 0, 4);
sum_harness!(c14_summary_n1, 1, 8);
sum_harness!(c14_summary_n2, 2, 8);
sum_harness!(c14_summary_n3, 3, 8);

/// Probe: a fully concrete interleaving R(1) R(1) S R(1) O(13) O(13).
#[kani::proof]
#[kani::unwind(10)]
#[kani::stub(alloc::fmt::format, crate::stubs::fmt_format)]
#[kani::stub(std::hash::RandomState::new, random_state_fixed)]
fn c14_probe_concrete() {
    let mut msgs: Vec<Message> = Vec::with_capacity(6);
    msgs.push(message_unsegmented(header(31, 5_000), radial(1, 0.0, false)));
    msgs.push(message_unsegmented(header(31, 9_000), radial(1, 1.0, false)));
    msgs.push(message_unsegmented(header(2, 7_000), status()));
    msgs.push(message_unsegmented(header(31, 3_000), radial(1, 3.0, false)));
    msgs.push(message_unsegmented(header(13, 4_000), MessageContents::Other));
    msgs.push(message_unsegmented(header(13, 4_500), MessageContents::Other));
    let s = summarize::messages(&msgs);
    let g = &s.message_groups;
    assert!(g.len() == 4, "C14: groups");
    assert!(g[0].start_message_index == 0 && g[0].end_message_index == 1 && g[0].message_count == 2 && !g[0].is_continued);
    assert!(g[1].start_message_index == 2 && g[1].message_count == 1);
    assert!(g[2].start_message_index == 3 && g[2].end_message_index == 3 && g[2].is_continued);
    assert!(g[3].start_message_index == 4 && g[3].end_message_index == 5 && g[3].message_count == 2);
    wit!(g.len() == 4);
    core::mem::forget(s);
    core::mem::forget(msgs);
}

// ---------------------------------------------------------------------------------------------
// Data-type counts (HashMap<String, usize>) and the VCP set (HashSet): two radials, the first
// carrying REF + VEL and a VOL block, the second REF only (and optionally a VOL block), elevation
// numbers symbolic - so both the merged-group and the two-group outcome are decided.
// ---------------------------------------------------------------------------------------------
use nexrad_decode::messages::digital_radar_data::{DataBlockId, GenericDataBlock, GenericDataBlockHeader, VolumeDataBlock};

fn moment() -> GenericDataBlock {
    GenericDataBlock {
        header: GenericDataBlockHeader {
            data_block_id: DataBlockId { data_block_type: b'D', data_name: *b"REF" },
            reserved: 0,
            number_of_data_moment_gates: 0,
            data_moment_range: 0,
            data_moment_range_sample_interval: 0,
            tover: 0,
            snr_threshold: 0,
            control_flags: 0,
            data_word_size: 8,
            scale: 2.0,
            offset: 66.0,
        },
        encoded_data: Vec::new(),
    }
}

fn vol(vcp: u16) -> VolumeDataBlock {
    VolumeDataBlock {
        data_block_id: DataBlockId { data_block_type: b'R', data_name: *b"VOL" },
        lrtup: 44,
        major_version_number: 1,
        minor_version_number: 0,
        latitude: 35.0,
        longitude: -97.0,
        site_height: 300,
        feedhorn_height: 20,
        calibration_constant: 0.0,
        horizontal_shv_tx_power: 0.0,
        vertical_shv_tx_power: 0.0,
        system_differential_reflectivity: 0.0,
        initial_system_differential_phase: 0.0,
        volume_coverage_pattern_number: vcp,
        processing_status: 0,
        zdr_bias_estimate_weighted_mean: 0,
        spare: [0; 6],
    }
}

fn radial_with(el: u8, az: f32, has_ref: bool, has_vel: bool, vcp: Option<u16>) -> MessageContents {
    match radial(el, az, false) {
        MessageContents::DigitalRadarData(mut m) => {
            if has_ref {
                m.reflectivity_data_block = Some(moment());
            }
            if has_vel {
                m.velocity_data_block = Some(moment());
            }
            if let Some(v) = vcp {
                m.volume_data_block = Some(vol(v));
            }
            MessageContents::DigitalRadarData(m)
        }
        _ => panic!("harness"),
    }
}

#[kani::proof]
#[kani::unwind(40)]
#[kani::stub(alloc::fmt::format, crate::stubs::fmt_format)]
#[kani::stub(std::hash::RandomState::new, random_state_fixed)]
fn c14_data_counts_and_vcp_set() {
    data_counts(None);
}

/// Concrete-label variants (the symbolic one decides grouping by a symbolic equality, which CBMC does
/// not get through): same elevation number with a second VOL block, different numbers without.
#[kani::proof]
#[kani::unwind(40)]
#[kani::stub(alloc::fmt::format, crate::stubs::fmt_format)]
#[kani::stub(std::hash::RandomState::new, random_state_fixed)]
fn c14_data_counts_same_elevation() {
    data_counts(Some((3, 3, true)));
}

#[kani::proof]
#[kani::unwind(40)]
#[kani::stub(alloc::fmt::format, crate::stubs::fmt_format)]
#[kani::stub(std::hash::RandomState::new, random_state_fixed)]
fn c14_data_counts_two_elevations() {
    data_counts(Some((3, 4, false)));
}

fn data_counts(fixed: Option<(u8, u8, bool)>) {
    let (e0, e1, second_vol): (u8, u8, bool) = match fixed {
        Some(t) => t,
        None => (kani::any(), kani::any(), kani::any()),
    };
    let mut msgs: Vec<Message> = Vec::with_capacity(2);
    msgs.push(message_unsegmented(header(31, 5_000), radial_with(e0, 0.0, true, true, Some(212))));
    msgs.push(message_unsegmented(header(31, 9_000), radial_with(e1, 1.0, true, false, if second_vol { Some(35) } else { None })));
    let s = summarize::messages(&msgs);
    let g = &s.message_groups;
    let count = |k: usize, name: &str| -> usize {
        match &g[k].data_types {
            Some(m) => match m.get(name) {
                Some(c) => *c,
                None => 0,
            },
            None => panic!("C14: radial group without data-type counts"),
        }
    };
    if e0 == e1 {
        assert!(g.len() == 1 && g[0].message_count == 2, "C14: equal elevation numbers form one group");
        assert!(count(0, "Reflectivity") == 2, "C14: per-group data-type count (Reflectivity)");
        assert!(count(0, "Velocity") == 1, "C14: per-group data-type count (Velocity)");
        assert!(count(0, "Spectrum Width") == 0, "C14: absent block counted");
    } else {
        assert!(g.len() == 2, "C14: different elevation numbers form two groups");
        assert!(count(0, "Reflectivity") == 1 && count(0, "Velocity") == 1, "C14: counts of the first group");
        assert!(count(1, "Reflectivity") == 1 && count(1, "Velocity") == 0, "C14: counts of the second group");
    }
    let vs = &s.volume_coverage_patterns;
    assert!(vs.len() == if second_vol { 2 } else { 1 }, "C14: VCP set size");
    assert!(vs.contains(&digital_radar_data::VolumeCoveragePattern::VCP212), "C14: VCP set misses a named pattern");
    assert!(vs.contains(&digital_radar_data::VolumeCoveragePattern::VCP35) == second_vol, "C14: VCP set membership");
    let w1 = if fixed.is_none() { e0 == e1 && second_vol } else { g.len() >= 1 };
    let w2 = if fixed.is_none() { e0 != e1 && !second_vol } else { !vs.is_empty() };
    wit!(w1);
    wit!(w2);
    core::mem::forget(s);
    core::mem::forget(msgs);
}
