//! C13 — clutter filter map (type 15) decodes to the encoded segment/azimuth/zone structure.
//! The 360-azimuth loop is structural, so the smallest well-formed body is 6 + 360*2 bytes.
use nexrad_decode::messages::clutter_filter_map::{decode_clutter_filter_map, Message, OpCode};

fn be16(b: &[u8], o: usize) -> u16 {
    u16::from_be_bytes([b[o], b[o + 1]])
}

/// zone counts: azimuth 0 -> Z0, azimuth 1 -> Z1, azimuth 359 -> Z359, all others 0 (concrete
/// counts per harness instance keep every offset concrete; zone *values* are symbolic).
fn structure<const S: usize, const Z0: usize, const Z1: usize, const Z359: usize, const L: usize>() {
    let mut b = [0u8; L];
    let date: u16 = kani::any();
    let time: u16 = kani::any();
    b[0..2].copy_from_slice(&date.to_be_bytes());
    b[2..4].copy_from_slice(&time.to_be_bytes());
    b[5] = S as u8;
    let per = 720 + 4 * (Z0 + Z1 + Z359);
    let zv: [[u16; 2]; 8] = kani::any(); // symbolic (op, end) pairs, reused per segment with an offset
    let mut s = 0;
    while s < S {
        let base = 6 + s * per;
        let mut o = base;
        let mut zi = 0usize;
        // azimuth 0
        b[o + 1] = Z0 as u8;
        o += 2;
        let mut z = 0;
        while z < Z0 {
            b[o..o + 2].copy_from_slice(&zv[zi][0].to_be_bytes());
            b[o + 2..o + 4].copy_from_slice(&(zv[zi][1].wrapping_add(s as u16)).to_be_bytes());
            o += 4;
            zi += 1;
            z += 1;
        }
        // azimuth 1
        b[o + 1] = Z1 as u8;
        o += 2;
        let mut z = 0;
        while z < Z1 {
            b[o..o + 2].copy_from_slice(&zv[zi][0].to_be_bytes());
            b[o + 2..o + 4].copy_from_slice(&(zv[zi][1].wrapping_add(s as u16)).to_be_bytes());
            o += 4;
            zi += 1;
            z += 1;
        }
        // azimuths 2..=358: zero zones (bytes already 0)
        o += 2 * 357;
        // azimuth 359
        b[o + 1] = Z359 as u8;
        o += 2;
        let mut z = 0;
        while z < Z359 {
            b[o..o + 2].copy_from_slice(&zv[zi][0].to_be_bytes());
            b[o + 2..o + 4].copy_from_slice(&(zv[zi][1].wrapping_add(s as u16)).to_be_bytes());
            o += 4;
            zi += 1;
            z += 1;
        }
        assert!(o == base + per);
        s += 1;
    }
    assert!(6 + S * per == L);
    let m: Message = match decode_clutter_filter_map(&mut &b[..]) {
        Ok(m) => m,
        Err(e) => {
            core::mem::forget(e);
            panic!("C13: a well-formed clutter filter map failed to decode")
        }
    };
    assert!(m.header.map_generation_date == date && m.header.map_generation_time == time, "C13: generation date/time fields");
    assert!(m.header.elevation_segment_count == S as u16);
    assert!(m.elevation_segments.len() == S, "C13: number of elevation segments");
    let mut s = 0;
    while s < S {
        let es = &m.elevation_segments[s];
        assert!(es.elevation_segment_number as usize == s, "C13: elevation segments numbered consecutively in order");
        assert!(es.azimuth_segments.len() == 360, "C13: 360 azimuth segments per elevation segment");
        let mut zi = 0usize;
        let mut a = 0;
        while a < 360 {
            let az = &es.azimuth_segments[a];
            assert!(az.azimuth_segment as usize == a, "C13: azimuth segments numbered 0..=359");
            let want = if a == 0 { Z0 } else if a == 1 { Z1 } else if a == 359 { Z359 } else { 0 };
            assert!(az.header.range_zone_count as usize == want, "C13: declared zone count");
            assert!(az.range_zones.len() == want, "C13: number of range zones != declared count");
            let mut z = 0;
            while z < want {
                let rz = &az.range_zones[z];
                assert!(rz.op_code == zv[zi][0], "C13: zone op code / order");
                assert!(rz.end_range == zv[zi][1].wrapping_add(s as u16), "C13: zone end range / order");
                if rz.op_code <= 2 {
                    let wantop = match rz.op_code {
                        0 => OpCode::BypassFilter,
                        1 => OpCode::BypassMapInControl,
                        _ => OpCode::ForceFilter,
                    };
                    assert!(rz.op_code() == wantop, "C13: op code meaning");
                }
                zi += 1;
                z += 1;
            }
            a += 1;
        }
        s += 1;
    }
    wit!(S == 0 || m.elevation_segments[S - 1].azimuth_segments[359].range_zones.len() == Z359);
    core::mem::forget(m);
}

#[kani::proof]
#[kani::unwind(10)]
#[kani::stub(alloc::fmt::format, crate::stubs::fmt_format)]
fn c13_structure_s0() {
    structure::<0, 0, 0, 0, 6>();
}

#[kani::proof]
#[kani::unwind(362)]
#[kani::stub(alloc::fmt::format, crate::stubs::fmt_format)]
fn c13_structure_s1() {
    structure::<1, 2, 1, 2, { 6 + 720 + 20 }>();
}

#[kani::proof]
#[kani::unwind(362)]
#[kani::stub(alloc::fmt::format, crate::stubs::fmt_format)]
fn c13_structure_s2() {
    structure::<2, 1, 0, 2, { 6 + 2 * (720 + 12) }>();
}

/// A body that ends before the declared structure is complete is an error: one declared segment,
/// all-zero zone counts, cut at any point before the 726th byte.
#[kani::proof]
#[kani::unwind(362)]
#[kani::stub(alloc::fmt::format, crate::stubs::fmt_format)]
fn c13_truncated() {
    let mut b = [0u8; 726];
    b[5] = 1;
    let n: usize = kani::any();
    kani::assume(n <= 726);
    let r = decode_clutter_filter_map(&mut &b[..n]);
    assert!(r.is_ok() == (n == 726), "C13: truncated body must be an error");
    wit!(n == 725);
    wit!(n == 726);
    wit!(n == 3);
    core::mem::forget(r);
}

/// Truncation inside the zone list of the LAST azimuth segment: one declared segment whose azimuth
/// 359 declares two zones; the body is cut somewhere inside those last 8 bytes.
#[kani::proof]
#[kani::unwind(362)]
#[kani::stub(alloc::fmt::format, crate::stubs::fmt_format)]
fn c13_truncated_last_zones() {
    let mut b = [0u8; 726 + 8];
    b[5] = 1;
    b[6 + 2 * 359 + 1] = 2; // azimuth 359 declares two zones
    let z: [u8; 8] = kani::any();
    let mut i = 0;
    while i < 8 {
        b[726 + i] = z[i];
        i += 1;
    }
    let n: usize = kani::any();
    kani::assume(n >= 726 && n <= 734);
    let r = decode_clutter_filter_map(&mut &b[..n]);
    assert!(r.is_ok() == (n == 734), "C13: a body cut inside the last zone list must be an error");
    wit!(n == 733);
    wit!(n == 734);
    core::mem::forget(r);
}

/// Quick-tier truncation check: one declared segment, body cut within the first 30 bytes (the
/// decoder runs out of input after at most 12 azimuth headers) -> error.
#[kani::proof]
#[kani::unwind(16)]
#[kani::stub(alloc::fmt::format, crate::stubs::fmt_format)]
fn c13_truncated_early() {
    let mut b = [0u8; 30];
    b[5] = 1;
    let n: usize = kani::any();
    kani::assume(n <= 30);
    let r = decode_clutter_filter_map(&mut &b[..n]);
    assert!(r.is_err(), "C13: truncated body must be an error");
    wit!(n == 30);
    wit!(n == 0);
    core::mem::forget(r);
}

/// Quick-tier truncation checks with a CONCRETE cut point K (a symbolic cut point forks every read:
/// c13_truncated_early needs > 30 min): one or more declared segments (count symbolic in 1..=255),
/// symbolic generation date/time, the first azimuth declaring Z zones with symbolic values, the
/// body cut after K bytes -> error, never a shortened structure.
fn truncated_at<const K: usize, const Z: usize>() {
    let mut b = [0u8; K];
    let hdr: [u8; 4] = kani::any();
    let segs: u8 = kani::any();
    kani::assume(segs >= 1);
    let zv: [u8; 8] = kani::any();
    let mut i = 0;
    while i < 4 && i < K {
        b[i] = hdr[i];
        i += 1;
    }
    if K > 5 {
        b[5] = segs;
    }
    if K > 7 {
        b[7] = Z as u8;
    }
    let mut i = 0;
    while i < 4 * Z && i < 8 && 8 + i < K {
        b[8 + i] = zv[i];
        i += 1;
    }
    let r = decode_clutter_filter_map(&mut &b[..]);
    assert!(r.is_err(), "C13: truncated body must be an error");
    wit!(K < 6 || segs == 255);
    core::mem::forget(r);
}

macro_rules! trunc_harness {
    ($name:ident, $k:expr, $z:expr) => {
        #[kani::proof]
        #[kani::unwind(10)]
        #[kani::stub(alloc::fmt::format, crate::stubs::fmt_format)]
        fn $name() {
            truncated_at::<$k, $z>();
        }
    };
}
trunc_harness!(c13_truncated_at_5, 5, 0);
trunc_harness!(c13_truncated_at_6, 6, 0);
trunc_harness!(c13_truncated_at_7, 7, 0);
trunc_harness!(c13_truncated_at_13_z2, 13, 2);
trunc_harness!(c13_truncated_at_16_z2, 16, 2);
trunc_harness!(c13_truncated_at_20, 20, 1);

/// Truncation inside the zone list of the LAST azimuth segment at a CONCRETE cut point (the symbolic
/// cut of c13_truncated_last_zones ran out of 30 GB): one declared segment whose azimuth 359 declares
/// two zones (symbolic values); the body ends after the first of them (730 of 734 bytes) -> error,
/// never a structure with fewer zones than declared.
#[kani::proof]
#[kani::unwind(362)]
#[kani::stub(alloc::fmt::format, crate::stubs::fmt_format)]
fn c13_cut_last_zone_at_730() {
    let mut b = [0u8; 730];
    b[5] = 1;
    b[6 + 2 * 359 + 1] = 2; // azimuth 359 declares two zones
    let z: [u8; 4] = kani::any();
    let mut i = 0;
    while i < 4 {
        b[726 + i] = z[i];
        i += 1;
    }
    let r = decode_clutter_filter_map(&mut &b[..]);
    assert!(r.is_err(), "C13: a body cut inside the last zone list must be an error");
    wit!(z[1] == 2);
    core::mem::forget(r);
}
