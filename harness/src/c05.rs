//! C05 — volume container: records tile the file, header exact (bzip2 round-trip: not applicable,
//! libbz2 is C behind FFI).
use nexrad_data::volume::{File, Header, Record};

fn be32(b: &[u8], o: usize) -> u32 {
    u32::from_be_bytes([b[o], b[o + 1], b[o + 2], b[o + 3]])
}

/// Well-formed file: 24-byte header + K records, record i = 4-byte signed size prefix + |size|
/// bytes, sizes 0..=MAXS, all bytes symbolic.  Well-formedness is *assumed* from the buffer
/// (prefixes read at the positions they determine), then the record list must tile exactly.
fn tiling<const K: usize, const MAXS: usize, const L: usize>() {
    let b: [u8; L] = kani::any();
    let mut starts = [0usize; 4];
    let mut pos = 24usize;
    let mut i = 0;
    while i < K {
        starts[i] = pos;
        let sz = (be32(&b, pos) as i32).unsigned_abs() as usize;
        kani::assume(sz <= MAXS);
        pos += 4 + sz;
        i += 1;
    }
    starts[K] = pos;
    let n = pos;
    assert!(n <= L);
    let f = File::new(b[..n].to_vec());
    let rs = f.records();
    assert!(rs.len() == K, "C05: record count != number of size-prefixed records");
    let mut i = 0;
    while i < K {
        let d = rs[i].data();
        assert!(d.len() == starts[i + 1] - starts[i], "C05: record length != 4 + |size|");
        let mut j = 0;
        while j < d.len() {
            assert!(d[j] == b[starts[i] + j], "C05: record bytes differ from the file bytes at its position");
            j += 1;
        }
        i += 1;
    }
    wit!(K == 0 || (be32(&b, 24) as i32) < 0, "witness: negative size prefix");
    wit!(K <= 1 || starts[1] == 28, "witness: empty first record");
    wit!(n == L, "witness: all records at maximum size");
    core::mem::forget(rs);
    core::mem::forget(f);
}

#[kani::proof]
#[kani::unwind(3)]
fn c05_tiling_k0() {
    tiling::<0, 0, 24>();
}

#[kani::proof]
#[kani::unwind(10)]
fn c05_tiling_k1() {
    tiling::<1, 4, { 24 + 8 }>();
}

#[kani::proof]
#[kani::unwind(10)]
fn c05_tiling_k2() {
    tiling::<2, 4, { 24 + 16 }>();
}

#[kani::proof]
#[kani::unwind(14)]
fn c05_tiling_k3() {
    tiling::<3, 8, { 24 + 36 }>();
}

/// Header accessors: 24 symbolic bytes; strings are the bytes at 0..9, 9..12, 20..24 (when valid
/// UTF-8; ASCII always is), date-time from the u32s at 12 and 16 (exactness: C08).
#[kani::proof]
#[kani::unwind(12)]
#[kani::stub(alloc::fmt::format, crate::stubs::fmt_format)]
fn c05_header_fields() {
    header_fields(false);
}

/// Quick variant: the three text fields are ASCII (what the format documents), everything else free.
#[kani::proof]
#[kani::unwind(14)]
#[kani::stub(alloc::fmt::format, crate::stubs::fmt_format)]
fn c05_header_fields_ascii() {
    header_fields(true);
}

fn header_fields(ascii_only: bool) {
    let b: [u8; 24] = kani::any();
    if ascii_only {
        let mut i = 0;
        while i < 12 {
            kani::assume(b[i] < 0x80);
            i += 1;
        }
        kani::assume(b[20] < 0x80 && b[21] < 0x80 && b[22] < 0x80 && b[23] < 0x80);
    }
    let h = match Header::deserialize(&mut &b[..]) {
        Ok(h) => h,
        Err(e) => {
            core::mem::forget(e);
            panic!("C05: 24-byte header failed to decode")
        }
    };
    let ascii = |lo: usize, hi: usize| {
        let mut ok = true;
        let mut i = lo;
        while i < hi {
            ok &= b[i] < 0x80;
            i += 1;
        }
        ok
    };
    let same = |s: &Option<String>, lo: usize, hi: usize| match s {
        Some(s) => {
            let sb = s.as_bytes();
            let mut ok = sb.len() == hi - lo;
            let mut i = 0;
            while ok && i < hi - lo {
                ok &= sb[i] == b[lo + i];
                i += 1;
            }
            ok
        }
        None => false,
    };
    let t = h.tape_filename();
    let e = h.extension_number();
    let c = h.icao_of_radar();
    if ascii(0, 9) {
        assert!(same(&t, 0, 9), "C05: tape filename != header bytes 0..9");
    } else if t.is_some() {
        assert!(same(&t, 0, 9));
    }
    if ascii(9, 12) {
        assert!(same(&e, 9, 12), "C05: extension number != header bytes 9..12");
    } else if e.is_some() {
        assert!(same(&e, 9, 12));
    }
    if ascii(20, 24) {
        assert!(same(&c, 20, 24), "C05: ICAO != header bytes 20..24");
    } else if c.is_some() {
        assert!(same(&c, 20, 24));
    }
    // the date-time accessor of this header is decided in C08 (c08_vol_header_exact / _total)
    wit!(ascii(0, 9) && b[0] == b'A' && t.is_some());
    wit!(ascii_only || (!ascii(20, 24) && c.is_none()));
    core::mem::forget((t, e, c));
}
