//! C12 — RDA status (type 2) message: layout, coded fields, flags and alarm table.
//! Oracle for coded fields and flags: the value -> meaning table in each field's own doc comment in
//! rda_status_data/message.rs (restating ICD Table IV).  Where a comment contradicts itself
//! ("1 (bit 1)": data_transmission_enabled, rda_alarm_summary) only the weaker sound statement is
//! asserted (one bit per accessor, distinct bits, documented order); see DESIGN.md section C12.
use nexrad_decode::messages::rda_status_data::alarm::get_alarm_message;
use nexrad_decode::messages::rda_status_data::*;

fn be16(b: &[u8], o: usize) -> u16 {
    u16::from_be_bytes([b[o], b[o + 1]])
}

fn any_msg() -> ([u8; 120], Message) {
    let b: [u8; 120] = kani::any();
    match decode_rda_status_message(&mut &b[..]) {
        Ok(m) => (b, m),
        Err(e) => {
            core::mem::forget(e);
            panic!("C12: a full 120-byte status message failed to decode")
        }
    }
}

/// Status message built by struct literal (all fields are public): one halfword (1-based ICD
/// index) carries v, everything else is zero.  Field <-> halfword correspondence is c12_layout's
/// subject; here only the accessors are exercised.
fn msg_with(hw: usize, v: u16) -> Message {
    let f = |i: usize| if i == hw { v } else { 0 };
    Message {
        rda_status: f(1),
        operability_status: f(2),
        control_status: f(3),
        auxiliary_power_generator_state: f(4),
        average_transmitter_power: f(5),
        horizontal_reflectivity_calibration_correction: f(6),
        data_transmission_enabled: f(7),
        volume_coverage_pattern: f(8) as i16,
        rda_control_authorization: f(9),
        rda_build_number: f(10),
        operational_mode: f(11),
        super_resolution_status: f(12),
        clutter_mitigation_decision_status: f(13),
        rda_scan_and_data_flags: f(14),
        rda_alarm_summary: f(15),
        command_acknowledgement: f(16),
        channel_control_status: f(17),
        spot_blanking_status: f(18),
        bypass_map_generation_date: f(19),
        bypass_map_generation_time: f(20),
        clutter_filter_map_generation_date: f(21),
        clutter_filter_map_generation_time: f(22),
        vertical_reflectivity_calibration_correction: f(23),
        transition_power_source_status: f(24),
        rms_control_status: f(25),
        performance_check_status: f(26),
        alarm_codes: [0; 14],
        signal_processor_options: f(41),
        spares: [0; 18],
        status_version: f(60),
    }
}

/// Every one of the 60 halfwords lands in the field ICD Table IV assigns to that position.
#[kani::proof]
#[kani::unwind(20)]
#[kani::stub(alloc::fmt::format, crate::stubs::fmt_format)]
fn c12_layout() {
    let (b, m) = any_msg();
    let hw = |i: usize| be16(&b, 2 * (i - 1));
    assert!(m.rda_status == hw(1), "C12: hw1 rda_status");
    assert!(m.operability_status == hw(2), "C12: hw2 operability_status");
    assert!(m.control_status == hw(3), "C12: hw3 control_status");
    assert!(m.auxiliary_power_generator_state == hw(4), "C12: hw4 auxiliary_power_generator_state");
    assert!(m.average_transmitter_power == hw(5), "C12: hw5 average_transmitter_power");
    assert!(m.horizontal_reflectivity_calibration_correction == hw(6), "C12: hw6 horizontal_reflectivity_calibration_correction");
    assert!(m.data_transmission_enabled == hw(7), "C12: hw7 data_transmission_enabled");
    assert!(m.volume_coverage_pattern == hw(8) as i16, "C12: hw8 volume_coverage_pattern");
    assert!(m.rda_control_authorization == hw(9), "C12: hw9 rda_control_authorization");
    assert!(m.rda_build_number == hw(10), "C12: hw10 rda_build_number");
    assert!(m.operational_mode == hw(11), "C12: hw11 operational_mode");
    assert!(m.super_resolution_status == hw(12), "C12: hw12 super_resolution_status");
    assert!(m.clutter_mitigation_decision_status == hw(13), "C12: hw13 clutter_mitigation_decision_status");
    assert!(m.rda_scan_and_data_flags == hw(14), "C12: hw14 rda_scan_and_data_flags");
    assert!(m.rda_alarm_summary == hw(15), "C12: hw15 rda_alarm_summary");
    assert!(m.command_acknowledgement == hw(16), "C12: hw16 command_acknowledgement");
    assert!(m.channel_control_status == hw(17), "C12: hw17 channel_control_status");
    assert!(m.spot_blanking_status == hw(18), "C12: hw18 spot_blanking_status");
    assert!(m.bypass_map_generation_date == hw(19), "C12: hw19 bypass_map_generation_date");
    assert!(m.bypass_map_generation_time == hw(20), "C12: hw20 bypass_map_generation_time");
    assert!(m.clutter_filter_map_generation_date == hw(21), "C12: hw21 clutter_filter_map_generation_date");
    assert!(m.clutter_filter_map_generation_time == hw(22), "C12: hw22 clutter_filter_map_generation_time");
    assert!(m.vertical_reflectivity_calibration_correction == hw(23), "C12: hw23 vertical_reflectivity_calibration_correction");
    assert!(m.transition_power_source_status == hw(24), "C12: hw24 transition_power_source_status");
    assert!(m.rms_control_status == hw(25), "C12: hw25 rms_control_status");
    assert!(m.performance_check_status == hw(26), "C12: hw26 performance_check_status");
    let mut i = 0;
    while i < 14 {
        assert!(m.alarm_codes[i] == hw(27 + i), "C12: hw27..40 alarm codes");
        i += 1;
    }
    assert!(m.signal_processor_options == hw(41), "C12: hw41 signal_processor_options");
    let mut j = 0;
    while j < 18 {
        assert!(m.spares[j] == hw(42 + j), "C12: hw42..59 spares");
        j += 1;
    }
    assert!(m.status_version == hw(60), "C12: hw60 status_version");
    wit!(m.rda_status == 0x0102 && m.status_version == 0x7778);
}

/// Coded accessors, part 1: documented code -> documented meaning.
#[kani::proof]
#[kani::stub(alloc::fmt::format, crate::stubs::fmt_format)]
fn c12_coded_a() {
    let v: u16 = kani::any();
    // hw1 RDA status: 2 start-up, 4 standby, 8 restart, 16 operate, 32 spare
    if v == 2 || v == 4 || v == 8 || v == 16 || v == 32 {
        let want = match v {
            2 => RDAStatus::StartUp,
            4 => RDAStatus::Standby,
            8 => RDAStatus::Restart,
            16 => RDAStatus::Operate,
            _ => RDAStatus::Spare,
        };
        assert!(msg_with(1, v).rda_status() == want, "C12: rda_status meaning");
    }
    // hw2 operability: 2 on-line, 4 MAR, 8 MAM, 16 commanded shut down, 32 inoperable
    if v == 2 || v == 4 || v == 8 || v == 16 || v == 32 {
        let want = match v {
            2 => OperabilityStatus::OnLine,
            4 => OperabilityStatus::MaintenanceActionRequired,
            8 => OperabilityStatus::MaintenanceActionMandatory,
            16 => OperabilityStatus::CommandedShutDown,
            _ => OperabilityStatus::Inoperable,
        };
        assert!(msg_with(2, v).operability_status() == want, "C12: operability_status meaning");
    }
    // hw3 control status: 2 local only, 4 remote only, 8 either
    if v == 2 || v == 4 || v == 8 {
        let want = match v {
            2 => ControlStatus::LocalControlOnly,
            4 => ControlStatus::RemoteControlOnly,
            _ => ControlStatus::EitherLocalOrRemoteControl,
        };
        assert!(msg_with(3, v).control_status() == want, "C12: control_status meaning");
    }
    // hw4 aux power: 1 switched to aux, 2 utility available, 4 generator on, 8 manual, 16 commanded switchover
    if v == 1 || v == 2 || v == 4 || v == 8 || v == 16 {
        let want = match v {
            1 => AuxiliaryPowerGeneratorState::SwitchedToAuxiliaryPower,
            2 => AuxiliaryPowerGeneratorState::UtilityPowerAvailable,
            4 => AuxiliaryPowerGeneratorState::GeneratorOn,
            8 => AuxiliaryPowerGeneratorState::TransferSwitchSetToManual,
            _ => AuxiliaryPowerGeneratorState::CommandedSwitchover,
        };
        assert!(msg_with(4, v).auxiliary_power_generator_state() == want, "C12: auxiliary_power_generator_state meaning");
    }
    // hw9 control authorization: 0 no action, 2 local requested, 4 remote requested
    if v == 0 || v == 2 || v == 4 {
        let want = match v {
            0 => ControlAuthorization::NoAction,
            2 => ControlAuthorization::LocalControlRequested,
            _ => ControlAuthorization::RemoteControlRequested,
        };
        assert!(msg_with(9, v).rda_control_authorization() == want, "C12: rda_control_authorization meaning");
    }
    // hw11 operational mode: 4 operational, 8 maintenance
    if v == 4 || v == 8 {
        let want = if v == 4 { OperationalMode::Operational } else { OperationalMode::Maintenance };
        assert!(msg_with(11, v).operational_mode() == want, "C12: operational_mode meaning");
    }
    // hw12 super resolution: 2 enabled, 4 disabled
    if v == 2 || v == 4 {
        let want = if v == 2 { SuperResolutionStatus::Enabled } else { SuperResolutionStatus::Disabled };
        assert!(msg_with(12, v).super_resolution_status() == want, "C12: super_resolution_status meaning");
    }
    wit!(v == 32);
    wit!(v == 0);
}

/// Coded accessors, part 2.
#[kani::proof]
#[kani::stub(alloc::fmt::format, crate::stubs::fmt_format)]
fn c12_coded_b() {
    let v: u16 = kani::any();
    // hw16 command acknowledgement: 0 none, 1..4
    if v <= 4 {
        let want = match v {
            0 => None,
            1 => Some(CommandAcknowledgement::RemoteVCPReceived),
            2 => Some(CommandAcknowledgement::ClutterBypassMapReceived),
            3 => Some(CommandAcknowledgement::ClutterCensorZonesReceived),
            _ => Some(CommandAcknowledgement::RedundantChannelControlCommandAccepted),
        };
        assert!(msg_with(16, v).command_acknowledgement() == want, "C12: command_acknowledgement meaning");
    }
    // hw18 spot blanking: 0 not installed, 1 enabled, 4 disabled
    if v == 0 || v == 1 || v == 4 {
        let want = match v {
            0 => SpotBlankingStatus::NotInstalled,
            1 => SpotBlankingStatus::Enabled,
            _ => SpotBlankingStatus::Disabled,
        };
        assert!(msg_with(18, v).spot_blanking_status() == want, "C12: spot_blanking_status meaning");
    }
    // hw24 TPS: 0 not installed, 1 off, 3 ok, 4 unknown
    if v == 0 || v == 1 || v == 3 || v == 4 {
        let want = match v {
            0 => TransitionPowerSourceStatus::NotInstalled,
            1 => TransitionPowerSourceStatus::Off,
            3 => TransitionPowerSourceStatus::OK,
            _ => TransitionPowerSourceStatus::Unknown,
        };
        assert!(msg_with(24, v).transition_power_source_status() == want, "C12: transition_power_source_status meaning");
    }
    // hw25 RMS control: 0 non-RMS, 2 RMS in control, 4 RDA in control
    if v == 0 || v == 2 || v == 4 {
        let want = match v {
            0 => RMSControlStatus::NonRMS,
            2 => RMSControlStatus::RMSInControl,
            _ => RMSControlStatus::RDAInControl,
        };
        assert!(msg_with(25, v).rms_control_status() == want, "C12: rms_control_status meaning");
    }
    // hw26 performance check: 0 none pending, 1 force pending, 2 in progress
    if v <= 2 {
        let want = match v {
            0 => PerformanceCheckStatus::NoCommandPending,
            1 => PerformanceCheckStatus::ForcePerformanceCheckPending,
            _ => PerformanceCheckStatus::InProgress,
        };
        assert!(msg_with(26, v).performance_check_status() == want, "C12: performance_check_status meaning");
    }
    // hw17 channel control: 0 controlling, 1 (bit 0) non-controlling - depends on exactly bit 0
    assert!(msg_with(17, v).controlling_channel() == (v & 1 != 0), "C12: channel_control_status bit 0");
    wit!(v == 4);
    wit!(v == 3);
}

/// Flag words: every accessor depends on exactly its documented bit, for all 2^16 values.
#[kani::proof]
#[kani::stub(alloc::fmt::format, crate::stubs::fmt_format)]
fn c12_flags() {
    let v: u16 = kani::any();
    // hw14 scan & data flags: 2 AVSET enabled, 4 AVSET disabled, 8 EBC, 16 RDA log data, 32 time series
    let f = msg_with(14, v).rda_scan_and_data_flags();
    if (v & 2 != 0) ^ (v & 4 != 0) {
        // the accessor's own stated domain: enabled XOR disabled
        assert!(f.avset_enabled() == (v & 2 != 0), "C12: AVSET enabled is bit 1 (value 2)");
    }
    assert!(f.ebc_enabled() == (v & 8 != 0), "C12: EBC enablement is bit 3 (value 8)");
    assert!(f.rda_log_data_enabled() == (v & 16 != 0), "C12: RDA log data enablement is bit 4 (value 16)");
    assert!(f.time_series_data_recording_enabled() == (v & 32 != 0), "C12: time series recording is bit 5 (value 32)");
    wit!(v == 0x2A);
}

/// Flag words whose doc table is self-contradictory: one bit each, distinct, in documented order.
#[kani::proof]
#[kani::stub(alloc::fmt::format, crate::stubs::fmt_format)]
fn c12_flags_structural() {
    let v: u16 = kani::any();
    let d = msg_with(7, v).data_transmission_enabled();
    // accept either reading of the doc table: flags start at bit 0 (values 1,2,4,8) or bit 1
    let k0 = if msg_with(7, 1).data_transmission_enabled().none() { 0 } else { 1 };
    assert!(d.none() == ((v >> k0) & 1 != 0)
        && d.reflectivity() == ((v >> (k0 + 1)) & 1 != 0)
        && d.velocity() == ((v >> (k0 + 2)) & 1 != 0)
        && d.spectrum_width() == ((v >> (k0 + 3)) & 1 != 0),
        "C12: data transmission flags must be four consecutive single bits in documented order");
    let s = msg_with(15, v).rda_alarm_summary();
    let s0 = if msg_with(15, 1).rda_alarm_summary().tower_utilities() { 0 } else { 1 };
    assert!(s.none() == (v == 0), "C12: alarm summary none <=> 0");
    assert!(s.tower_utilities() == ((v >> s0) & 1 != 0));
    assert!(s.pedestal() == ((v >> (s0 + 1)) & 1 != 0));
    assert!(s.transmitter() == ((v >> (s0 + 2)) & 1 != 0));
    assert!(s.receiver() == ((v >> (s0 + 3)) & 1 != 0));
    assert!(s.rda_control() == ((v >> (s0 + 4)) & 1 != 0));
    assert!(s.communication() == ((v >> (s0 + 5)) & 1 != 0));
    assert!(s.signal_processor() == ((v >> (s0 + 6)) & 1 != 0));
    wit!(v == 0x55);
}

/// Clutter mitigation decision: 0 disabled, 1 enabled, otherwise the set of applied bypass-map
/// elevation segments (bits 1..=5 -> segments 1..=5).
#[kani::proof]
#[kani::unwind(8)]
#[kani::stub(alloc::fmt::format, crate::stubs::fmt_format)]
fn c12_clutter_mitigation() {
    let v: u16 = kani::any();
    kani::assume(v < 64);
    let r = msg_with(13, v).clutter_mitigation_decision_status();
    match &r {
        ClutterMitigationDecisionStatus::Disabled => assert!(v == 0),
        ClutterMitigationDecisionStatus::Enabled => assert!(v == 1),
        ClutterMitigationDecisionStatus::BypassMapElevationSegments(s) => {
            assert!(v >= 2);
            // every listed segment i has bit i set, ascending, and every set bit 1..=4 is listed
            let mut i = 0;
            while i < s.len() {
                assert!(s[i] < 16 && (v >> s[i]) & 1 != 0);
                if i > 0 {
                    assert!(s[i - 1] < s[i]);
                }
                i += 1;
            }
            let mut bit = 1;
            while bit <= 4 {
                if (v >> bit) & 1 != 0 {
                    let mut found = false;
                    let mut j = 0;
                    while j < s.len() {
                        found |= s[j] as u16 == bit;
                        j += 1;
                    }
                    assert!(found, "C12: applied elevation segment missing from the list");
                }
                bit += 1;
            }
        }
    }
    wit!(v == 6);
    core::mem::forget(r);
}

/// Scaled values: raw/100 dB, build-number rule, VCP sign/magnitude.
#[kani::proof]
#[kani::stub(alloc::fmt::format, crate::stubs::fmt_format)]
fn c12_scaled() {
    let v: u16 = kani::any();
    let m = msg_with(6, v);
    assert!(m.horizontal_reflectivity_calibration_correction() == v as f32 / 100.0, "C12: calibration correction is raw/100");
    let b = msg_with(10, v).rda_build_number();
    let want = if v as f32 / 100.0 > 2.0 { v as f32 / 100.0 } else { v as f32 / 10.0 };
    assert!(b == want, "C12: build number rule");
    let s = v as i16;
    let p = msg_with(8, v).volume_coverage_pattern();
    if s == 0 {
        assert!(p.is_none(), "C12: VCP 0 means no pattern");
    } else if s != i16::MIN {
        // i16::MIN has no representable magnitude in the accessor's i16 return type: outside the domain
        let p = match p {
            Some(p) => p,
            None => panic!("C12: non-zero VCP reported as none"),
        };
        assert!(p.number() as i32 == (s as i32).abs(), "C12: VCP magnitude");
        assert!(p.local() == (s < 0) && p.remote() == (s > 0), "C12: VCP local/remote by sign");
    }
    wit!(v == 1900 && b == 19.0);
    wit!(v == 190 && b == 19.0);
    wit!(s == -212);
}

fn alarm_lookup(limit: u16) {
    let c: u16 = kani::any();
    kani::assume(c <= limit);
    match get_alarm_message(c) {
        Some(m) => {
            assert!(c <= 800, "C12: alarm definition exists above 800");
            assert!(m.code() == c, "C12: alarm definition carries a different code than its key");
        }
        None => assert!(c > 800, "C12: alarm code in 0..=800 has no definition"),
    }
    wit!(c == 800);
    wit!(c == limit);
}

#[kani::proof]
fn c12_alarm_lookup_1023() {
    alarm_lookup(1023);
}

/// Quick-tier companion for the upper half of the code space: every code with one of the six high
/// bits set on top of a low part <= 1023 (0x0400..=0xFFFF in steps the quick range cannot reach
/// otherwise) has no definition - a lookup that masks or truncates the code fails here.
#[kani::proof]
fn c12_alarm_lookup_high_bits() {
    let low: u16 = kani::any();
    kani::assume(low <= 1023);
    let k: u8 = kani::any();
    kani::assume(k >= 10 && k <= 15);
    let c = low | (1u16 << k);
    assert!(get_alarm_message(c).is_none(), "C12: alarm definition exists above 800");
    wit!(c == 0x8000 + 14);
    wit!(c == 0x0400);
}

#[kani::proof]
fn c12_alarm_lookup_all() {
    alarm_lookup(65535);
}

/// A status message lists the definitions of its non-zero alarm codes in message order: two concrete
/// code layouts (zeros leading/trailing/in between, repeated codes - also in consecutive slots); one
/// symbolic code: thorough tier.
#[kani::proof]
#[kani::unwind(16)]
#[kani::stub(alloc::fmt::format, crate::stubs::fmt_format)]
fn c12_alarm_messages_order() {
    let layouts: [[u16; 14]; 2] = [
        [800, 17, 0, 0, 0, 0, 14, 0, 0, 0, 0, 0, 17, 3],
        [0, 0, 398, 0, 398, 398, 0, 0, 0, 0, 0, 0, 0, 20],
    ];
    let mut l = 0;
    while l < 2 {
        let mut m = msg_with(1, 16);
        m.alarm_codes = layouts[l];
        let out = m.alarm_messages();
        let mut k = 0;
        let mut i = 0;
        while i < 14 {
            if layouts[l][i] != 0 {
                assert!(k < out.len(), "C12: alarm message missing");
                assert!(out[k].code() == layouts[l][i], "C12: alarm messages out of message order");
                k += 1;
            }
            i += 1;
        }
        assert!(out.len() == k, "C12: extra alarm messages");
        wit!(l == 0 && out.len() == 5);
        core::mem::forget(out);
        l += 1;
    }
}

/// Same, with one fully symbolic code (0..=800) between two concrete ones.
#[kani::proof]
#[kani::unwind(16)]
#[kani::stub(alloc::fmt::format, crate::stubs::fmt_format)]
fn c12_alarm_messages_symbolic_code() {
    let c: u16 = kani::any();
    kani::assume(c <= 800);
    let mut m = msg_with(1, 16);
    m.alarm_codes[2] = 17;
    m.alarm_codes[7] = c;
    m.alarm_codes[13] = 800;
    let out = m.alarm_messages();
    if c == 0 {
        assert!(out.len() == 2 && out[0].code() == 17 && out[1].code() == 800);
    } else {
        assert!(out.len() == 3 && out[0].code() == 17 && out[1].code() == c && out[2].code() == 800,
            "C12: alarm messages must follow message order");
    }
    wit!(c == 0);
    wit!(c == 799);
    core::mem::forget(out);
}
