//! C08 — ICD date/time fields decode to the exact UTC instant.
//! exact: every d in 1..=65535, every time of day (ms < 86_400_000 or min < 1440): the accessor is
//!        1970-01-01T00:00:00Z + (d-1) days + t, checked by components (day number from CE,
//!        second of day, nanosecond) — this *is* the instant, hence strictly increasing in (d, t) and
//!        identical across crates.
//! total: every other field value returns without panicking.
use chrono::{DateTime, Datelike, Timelike, Utc};

/// 1970-01-01 is day 719_163 of the proleptic Gregorian calendar (0001-01-01 = day 1).
const EPOCH_CE: i32 = 719_163;

fn check_ms(dt: Option<DateTime<Utc>>, d: u16, t: u32) {
    let dt = match dt {
        Some(x) => x,
        None => panic!("C08: in-range date/time gave None"),
    };
    assert!(dt.date_naive().num_days_from_ce() == EPOCH_CE + d as i32 - 1, "C08: wrong day");
    assert!(dt.time().num_seconds_from_midnight() == t / 1000, "C08: wrong second of day");
    assert!(dt.time().nanosecond() == (t % 1000) * 1_000_000, "C08: wrong sub-second");
}

fn check_min(dt: Option<DateTime<Utc>>, d: u16, m: u16) {
    let dt = match dt {
        Some(x) => x,
        None => panic!("C08: in-range date/time gave None"),
    };
    assert!(dt.date_naive().num_days_from_ce() == EPOCH_CE + d as i32 - 1, "C08: wrong day");
    assert!(dt.time().num_seconds_from_midnight() == m as u32 * 60, "C08: wrong second of day");
    assert!(dt.time().nanosecond() == 0, "C08: wrong sub-second");
}

// ---- message header (decode crate) ---------------------------------------------------------
fn msg_header(d: u16, t: u32) -> nexrad_decode::messages::message_header::MessageHeader {
    let mut b: [u8; 28] = kani::any();
    b[18..20].copy_from_slice(&d.to_be_bytes());
    b[20..24].copy_from_slice(&t.to_be_bytes());
    match nexrad_decode::messages::decode_message_header(&mut &b[..]) {
        Ok(h) => h,
        Err(e) => {
            core::mem::forget(e);
            panic!("C08: header decode failed")
        }
    }
}

#[kani::proof]
#[kani::stub(alloc::fmt::format, crate::stubs::fmt_format)]
fn c08_msg_header_exact() {
    let d: u16 = kani::any();
    let t: u32 = kani::any();
    kani::assume(d >= 1 && t < 86_400_000);
    check_ms(msg_header(d, t).date_time(), d, t);
    wit!(d == 65535 && t == 86_399_999);
    wit!(d == 1 && t == 0);
}

#[kani::proof]
#[kani::stub(alloc::fmt::format, crate::stubs::fmt_format)]
fn c08_msg_header_total() {
    let d: u16 = kani::any();
    let t: u32 = kani::any();
    let r = msg_header(d, t).date_time();
    wit!(d == 0 && t == u32::MAX && r.is_some());
}

// ---- type-31 header ---------------------------------------------------------------------------
fn drd_header(d: u16, t: u32) -> nexrad_decode::messages::digital_radar_data::Header {
    let mut b: [u8; 32] = kani::any();
    b[4..8].copy_from_slice(&t.to_be_bytes());
    b[8..10].copy_from_slice(&d.to_be_bytes());
    b[30] = 0;
    b[31] = 0; // no data blocks
    let mut c = std::io::Cursor::new(&b[..]);
    match nexrad_decode::messages::digital_radar_data::decode_digital_radar_data(&mut c) {
        Ok(m) => m.header,
        Err(e) => {
            core::mem::forget(e);
            panic!("C08: type-31 header decode failed")
        }
    }
}

#[kani::proof]
#[kani::unwind(2)]
#[kani::stub(alloc::fmt::format, crate::stubs::fmt_format)]
fn c08_drd_header_exact() {
    let d: u16 = kani::any();
    let t: u32 = kani::any();
    kani::assume(d >= 1 && t < 86_400_000);
    check_ms(drd_header(d, t).date_time(), d, t);
    wit!(d == 65535 && t == 86_399_999);
}

#[kani::proof]
#[kani::unwind(2)]
#[kani::stub(alloc::fmt::format, crate::stubs::fmt_format)]
fn c08_drd_header_total() {
    let d: u16 = kani::any();
    let t: u32 = kani::any();
    let r = drd_header(d, t).date_time();
    wit!(d == 0 && t == u32::MAX && r.is_some());
}

// ---- volume header (data crate, its own copy of the conversion; date is a u32 on the wire) ------
fn vol_header(d: u32, t: u32) -> nexrad_data::volume::Header {
    let mut b: [u8; 24] = kani::any();
    b[12..16].copy_from_slice(&d.to_be_bytes());
    b[16..20].copy_from_slice(&t.to_be_bytes());
    match nexrad_data::volume::Header::deserialize(&mut &b[..]) {
        Ok(h) => h,
        Err(e) => {
            core::mem::forget(e);
            panic!("C08: volume header decode failed")
        }
    }
}

#[kani::proof]
#[kani::stub(alloc::fmt::format, crate::stubs::fmt_format)]
fn c08_vol_header_exact() {
    let d: u16 = kani::any();
    let t: u32 = kani::any();
    kani::assume(d >= 1 && t < 86_400_000);
    check_ms(vol_header(d as u32, t).date_time(), d, t);
    wit!(d == 65535 && t == 86_399_999);
}

#[kani::proof]
#[kani::stub(alloc::fmt::format, crate::stubs::fmt_format)]
fn c08_vol_header_total() {
    let d: u32 = kani::any();
    let t: u32 = kani::any();
    let r = vol_header(d, t).date_time();
    wit!(d == u32::MAX && t == u32::MAX && r.is_some());
}

// ---- RDA status: bypass-map and clutter-map generation times (minutes) --------------------------
fn rda(bd: u16, bt: u16, cd: u16, ct: u16) -> nexrad_decode::messages::rda_status_data::Message {
    let mut b: [u8; 120] = [0; 120];
    // ICD Table IV halfwords 19..22 (1-based) = bypass date, bypass time, clutter date, clutter time
    b[36..38].copy_from_slice(&bd.to_be_bytes());
    b[38..40].copy_from_slice(&bt.to_be_bytes());
    b[40..42].copy_from_slice(&cd.to_be_bytes());
    b[42..44].copy_from_slice(&ct.to_be_bytes());
    match nexrad_decode::messages::rda_status_data::decode_rda_status_message(&mut &b[..]) {
        Ok(m) => m,
        Err(e) => {
            core::mem::forget(e);
            panic!("C08: RDA status decode failed")
        }
    }
}

#[kani::proof]
#[kani::stub(alloc::fmt::format, crate::stubs::fmt_format)]
fn c08_rda_bypass_exact() {
    let d: u16 = kani::any();
    let m: u16 = kani::any();
    kani::assume(d >= 1 && m < 1440);
    let msg = rda(d, m, kani::any(), kani::any());
    assert!(msg.bypass_map_generation_date == d && msg.bypass_map_generation_time == m);
    check_min(msg.bypass_map_generation_date_time(), d, m);
    wit!(d == 65535 && m == 1439);
}

#[kani::proof]
#[kani::stub(alloc::fmt::format, crate::stubs::fmt_format)]
fn c08_rda_clutter_exact() {
    let d: u16 = kani::any();
    let m: u16 = kani::any();
    kani::assume(d >= 1 && m < 1440);
    let msg = rda(kani::any(), kani::any(), d, m);
    assert!(msg.clutter_filter_map_generation_date == d && msg.clutter_filter_map_generation_time == m);
    check_min(msg.clutter_filter_map_generation_date_time(), d, m);
    wit!(d == 65535 && m == 1439);
}

#[kani::proof]
#[kani::stub(alloc::fmt::format, crate::stubs::fmt_format)]
fn c08_rda_total() {
    let msg = rda(kani::any(), kani::any(), kani::any(), kani::any());
    let a = msg.bypass_map_generation_date_time();
    let b = msg.clutter_filter_map_generation_date_time();
    wit!(msg.bypass_map_generation_date == 0 && msg.bypass_map_generation_time == 65535 && a.is_some());
    wit!(msg.clutter_filter_map_generation_date == 0 && b.is_some());
}

// ---- clutter filter map header (minutes) ------------------------------------------------------------
#[kani::proof]
fn c08_cfm_header_exact() {
    let d: u16 = kani::any();
    let m: u16 = kani::any();
    kani::assume(d >= 1 && m < 1440);
    let h = nexrad_decode::messages::clutter_filter_map::Header {
        map_generation_date: d,
        map_generation_time: m,
        elevation_segment_count: kani::any(),
    };
    check_min(h.date_time(), d, m);
    wit!(d == 65535 && m == 1439);
}

#[kani::proof]
fn c08_cfm_header_total() {
    let h = nexrad_decode::messages::clutter_filter_map::Header {
        map_generation_date: kani::any(),
        map_generation_time: kani::any(),
        elevation_segment_count: kani::any(),
    };
    let r = h.date_time();
    wit!(h.map_generation_date == 0 && h.map_generation_time == 65535 && r.is_some());
}
