//! C04 — message decoding is total: arbitrary bytes give a value or an error.
//! Each harness hands one decode entry point a buffer whose bytes AND length are symbolic.
//! What is checked is Kani's own: no panic, no arithmetic overflow, no out-of-bounds, and the
//! unwinding assertions (every loop ends within the bound, i.e. it consumes input).
//! Memory clause: alloc::alloc::{alloc, alloc_zeroed, realloc} are replaced by versions that assert
//! every single request is <= stubs::ALLOC_CAP (16 MiB, a constant far above anything the decoders
//! derive from 8/16-bit counts) before forwarding to the system allocator; natively (replay) the
//! same bound is observed by the recording global allocator of this crate's test build.
use nexrad_decode::messages::digital_radar_data::decode_digital_radar_data;
use nexrad_decode::messages::{decode_message_contents, decode_message_header, decode_messages};
use std::io::Cursor;

fn any_len<const L: usize>() -> ([u8; L], usize) {
    let b: [u8; L] = kani::any();
    let n: usize = kani::any();
    kani::assume(n <= L);
    (b, n)
}

#[kani::proof]
#[kani::stub(alloc::fmt::format, crate::stubs::fmt_format)]
#[kani::stub(alloc::alloc::alloc, crate::stubs::alloc_capped)]
#[kani::stub(alloc::alloc::alloc_zeroed, crate::stubs::alloc_zeroed_capped)]
#[kani::stub(alloc::alloc::realloc, crate::stubs::realloc_capped)]
fn c04_header() {
    let (b, n) = any_len::<40>();
    let r = decode_message_header(&mut &b[..n]);
    assert!(r.is_ok() == (n >= 28), "C04: header decodes iff 28 bytes are available");
    wit!(r.is_err());
    wit!(r.is_ok());
    core::mem::forget(r);
}

#[kani::proof]
#[kani::stub(alloc::fmt::format, crate::stubs::fmt_format)]
#[kani::stub(alloc::alloc::alloc, crate::stubs::alloc_capped)]
#[kani::stub(alloc::alloc::alloc_zeroed, crate::stubs::alloc_zeroed_capped)]
#[kani::stub(alloc::alloc::realloc, crate::stubs::realloc_capped)]
fn c04_rda_status() {
    let (b, n) = any_len::<130>();
    let r = nexrad_decode::messages::rda_status_data::decode_rda_status_message(&mut &b[..n]);
    assert!(r.is_ok() == (n >= 120));
    wit!(r.is_err());
    wit!(r.is_ok());
    core::mem::forget(r);
}

/// VCP: cut count is a free u16 (up to 65535): must error when the input is exhausted, not loop.
#[kani::proof]
#[kani::unwind(5)]
#[kani::stub(alloc::fmt::format, crate::stubs::fmt_format)]
#[kani::stub(alloc::alloc::alloc, crate::stubs::alloc_capped)]
#[kani::stub(alloc::alloc::alloc_zeroed, crate::stubs::alloc_zeroed_capped)]
#[kani::stub(alloc::alloc::realloc, crate::stubs::realloc_capped)]
fn c04_vcp() {
    let (b, n) = any_len::<{ 22 + 46 * 3 + 8 }>();
    let r = nexrad_decode::messages::volume_coverage_pattern::decode_volume_coverage_pattern(&mut &b[..n]);
    if n >= 22 {
        let cuts = u16::from_be_bytes([b[6], b[7]]) as usize;
        assert!(r.is_ok() == (n >= 22 + 46 * cuts), "C04: VCP decodes iff the declared cuts fit");
    } else {
        assert!(r.is_err());
    }
    wit!(r.is_err() && n >= 22);
    wit!(r.is_ok() && n == 22 + 46 * 3);
    core::mem::forget(r);
}

/// Clutter filter map: segment count and zone counts free; every iteration consumes >= 2 bytes.
#[kani::proof]
#[kani::unwind(24)]
#[kani::stub(alloc::fmt::format, crate::stubs::fmt_format)]
#[kani::stub(alloc::alloc::alloc, crate::stubs::alloc_capped)]
#[kani::stub(alloc::alloc::alloc_zeroed, crate::stubs::alloc_zeroed_capped)]
#[kani::stub(alloc::alloc::realloc, crate::stubs::realloc_capped)]
fn c04_clutter_map() {
    let (b, n) = any_len::<44>();
    let r = nexrad_decode::messages::clutter_filter_map::decode_clutter_filter_map(&mut &b[..n]);
    if n >= 6 {
        let segs = u16::from_be_bytes([b[4], b[5]]) as u8;
        // 44 bytes can never hold the 360 azimuth segments of one elevation segment
        assert!(r.is_ok() == (segs == 0));
    } else {
        assert!(r.is_err());
    }
    wit!(r.is_err() && n == 44);
    wit!(r.is_ok());
    core::mem::forget(r);
}

/// Type 31 with everything free: header, block count (<= 2 so that the pointer table fits the
/// bound), pointers (any u32: backwards, overlapping, out of range), block names, gates, word size.
#[kani::proof]
#[kani::unwind(12)]
#[kani::stub(alloc::fmt::format, crate::stubs::fmt_format)]
#[kani::stub(alloc::alloc::alloc, crate::stubs::alloc_capped)]
#[kani::stub(alloc::alloc::alloc_zeroed, crate::stubs::alloc_zeroed_capped)]
#[kani::stub(alloc::alloc::realloc, crate::stubs::realloc_capped)]
#[kani::stub(<[u8; 4] as core::convert::TryFrom<&[u8]>>::try_from, crate::stubs::array_try_from)]
fn c04_type31() {
    let (b, n) = any_len::<{ 32 + 8 + 64 }>();
    if n >= 32 {
        kani::assume(u16::from_be_bytes([b[30], b[31]]) <= 2);
    }
    let mut c = Cursor::new(&b[..n]);
    let r = decode_digital_radar_data(&mut c);
    wit!(r.is_err() && n >= 40);
    wit!(r.is_ok() && n >= 40 && b[31] == 2);
    if let Ok(m) = &r {
        // radial conversion of whatever decoded successfully returns a value or an error
        let q = m.radial();
        wit!(q.is_ok());
        core::mem::forget(q);
    }
    core::mem::forget(r);
}

/// Type 31 on a fixed-size buffer (header + one pointer + 40 bytes) with every byte free except the
/// block count (1): free pointer (backwards, out of range, into the header), free block name (unknown
/// names), free gate count and word size (0, 255).  No symbolic length, so this one is cheap.
#[kani::proof]
#[kani::unwind(12)]
#[kani::stub(alloc::fmt::format, crate::stubs::fmt_format)]
#[kani::stub(alloc::alloc::alloc, crate::stubs::alloc_capped)]
#[kani::stub(alloc::alloc::alloc_zeroed, crate::stubs::alloc_zeroed_capped)]
#[kani::stub(alloc::alloc::realloc, crate::stubs::realloc_capped)]
#[kani::stub(<[u8; 4] as core::convert::TryFrom<&[u8]>>::try_from, crate::stubs::array_try_from)]
fn c04_type31_one_block_free() {
    let mut b: [u8; 76] = kani::any();
    b[30] = 0;
    b[31] = 1;
    type31_run(&b);
}

fn type31_run(b: &[u8; 76]) {
    let mut c = Cursor::new(&b[..]);
    let r = decode_digital_radar_data(&mut c);
    crate::stubs::alloc_check();
    wit!(r.is_err());
    if let Ok(m) = &r {
        let q = m.radial();
        core::mem::forget(q);
    }
    core::mem::forget(r);
}

/// One block at the canonical offset 36 with a CONCRETE name (free names cost > 16 GB: every
/// comparison against the ten literals forks) and free block type, gate count, word size, scale and
/// offset; every other byte zero.  Names: unknown ASCII, a moment, a non-UTF-8 name.
fn type31_named(name: [u8; 3]) {
    let mut b = [0u8; 76];
    b[31] = 1;
    b[35] = 36;
    let f: [u8; 12] = kani::any();
    b[36] = f[0];
    b[37] = name[0];
    b[38] = name[1];
    b[39] = name[2];
    b[44] = f[1];
    b[45] = f[2]; // gates
    b[55] = f[3]; // word size
    let mut i = 0;
    while i < 8 {
        b[56 + i] = f[4 + i]; // scale, offset
        i += 1;
    }
    type31_run(&b);
}

macro_rules! named_harness {
    ($name:ident, $n:expr) => {
        #[kani::proof]
        #[kani::unwind(12)]
        #[kani::stub(alloc::fmt::format, crate::stubs::fmt_format)]
        #[kani::stub(alloc::alloc::alloc, crate::stubs::alloc_capped)]
        #[kani::stub(alloc::alloc::alloc_zeroed, crate::stubs::alloc_zeroed_capped)]
        #[kani::stub(alloc::alloc::realloc, crate::stubs::realloc_capped)]
        #[kani::stub(<[u8; 4] as core::convert::TryFrom<&[u8]>>::try_from, crate::stubs::array_try_from)]
        fn $name() {
            type31_named($n);
        }
    };
}
named_harness!(c04_type31_unknown_name, *b"XYZ");
named_harness!(c04_type31_moment_free_sizes, *b"REF");
named_harness!(c04_type31_non_utf8_name, [0xFF, 0xFE, 0x41]);

/// VCP on a fixed 2-cut frame with every byte free (declared size, cut count, all fields).
#[kani::proof]
#[kani::unwind(5)]
#[kani::stub(alloc::fmt::format, crate::stubs::fmt_format)]
#[kani::stub(alloc::alloc::alloc, crate::stubs::alloc_capped)]
#[kani::stub(alloc::alloc::alloc_zeroed, crate::stubs::alloc_zeroed_capped)]
#[kani::stub(alloc::alloc::realloc, crate::stubs::realloc_capped)]
fn c04_vcp_fixed_frame() {
    let b: [u8; 22 + 46 * 2] = kani::any();
    let r = nexrad_decode::messages::volume_coverage_pattern::decode_volume_coverage_pattern(&mut &b[..]);
    wit!(r.is_err());
    wit!(r.is_ok());
    core::mem::forget(r);
}

/// The message-stream loop on a 76-byte stream holding one type-31 message whose only block has
/// the unknown name "XYZ": the message header's size fields (segment size, count, number) are free,
/// everything else concrete (free block names inside the loop cost > 24 GB).  Value or error, and the
/// loop ends: every iteration must consume a header (unwinding assertions).
#[kani::proof]
#[kani::unwind(12)]
#[kani::stub(alloc::fmt::format, crate::stubs::fmt_format)]
#[kani::stub(alloc::alloc::alloc, crate::stubs::alloc_capped)]
#[kani::stub(alloc::alloc::alloc_zeroed, crate::stubs::alloc_zeroed_capped)]
#[kani::stub(alloc::alloc::realloc, crate::stubs::realloc_capped)]
#[kani::stub(<[u8; 4] as core::convert::TryFrom<&[u8]>>::try_from, crate::stubs::array_try_from)]
fn c04_messages_unknown_block() {
    messages_unknown_block(true);
}

/// Twin with CONCRETE size fields (segment size 0, count/number 0) and the other header fields
/// free: a stream loop that "skips" an undecodable message by its declared size makes no progress
/// here, which the unwinding assertion reports; with free size fields the skip target is symbolic
/// and CBMC does not get through the re-decoding.
#[kani::proof]
#[kani::unwind(6)] // small on purpose: a loop that makes no progress is reported after 6 rounds instead of 12
#[kani::stub(alloc::fmt::format, crate::stubs::fmt_format)]
#[kani::stub(alloc::alloc::alloc, crate::stubs::alloc_capped)]
#[kani::stub(alloc::alloc::alloc_zeroed, crate::stubs::alloc_zeroed_capped)]
#[kani::stub(alloc::alloc::realloc, crate::stubs::realloc_capped)]
#[kani::stub(<[u8; 4] as core::convert::TryFrom<&[u8]>>::try_from, crate::stubs::array_try_from)]
fn c04_messages_unknown_block_size0() {
    messages_unknown_block(false);
}

fn messages_unknown_block(free_sizes: bool) {
    let mut b = [0u8; 28 + 32 + 4 + 12];
    let f: [u8; 6] = kani::any();
    if free_sizes {
        b[12] = f[0];
        b[13] = f[1]; // segment size
        b[24] = f[2];
        b[25] = f[3];
        b[26] = f[4];
        b[27] = f[5]; // segment count / number
    } else {
        b[14] = f[0]; // redundant channel
        b[16] = f[1];
        b[17] = f[2]; // sequence number
        b[18] = f[3];
        b[19] = f[4]; // date
        b[23] = f[5]; // time (low byte)
    }
    b[15] = 31;
    let h = 28;
    b[h + 31] = 1;
    b[h + 35] = 36;
    b[h + 36] = b'D';
    b[h + 37] = b'X';
    b[h + 38] = b'Y';
    b[h + 39] = b'Z';
    let mut c = Cursor::new(&b[..]);
    let r = decode_messages(&mut c);
    crate::stubs::alloc_check();
    assert!(r.is_err(), "C04: an unknown block name is an error");
    wit!(r.is_err());
    core::mem::forget(r);
}

/// One data block whose pointer lies far beyond the input (concrete representatives 0x1000_0000 and
/// 0xFFFF_FFFF: a free pointer makes every later read symbolic-offset and does not finish), the
/// 32-byte type-31 header otherwise free.  Value or error, and no allocation request above the cap:
/// a decoder that sizes a buffer by the distance to an untrusted pointer fails here.
fn type31_far_pointer(p: u32) {
    let mut b = [0u8; 76];
    let h: [u8; 30] = kani::any();
    let mut i = 0;
    while i < 30 {
        b[i] = h[i];
        i += 1;
    }
    b[31] = 1;
    b[32..36].copy_from_slice(&p.to_be_bytes());
    let mut c = Cursor::new(&b[..]);
    let r = decode_digital_radar_data(&mut c);
    crate::stubs::alloc_check();
    assert!(r.is_err(), "C04: a block pointer beyond the input is an error");
    wit!(r.is_err());
    core::mem::forget(r);
}

macro_rules! far_pointer_harness {
    ($name:ident, $p:expr) => {
        #[kani::proof]
        #[kani::unwind(32)]
        #[kani::stub(alloc::fmt::format, crate::stubs::fmt_format)]
        #[kani::stub(alloc::alloc::alloc, crate::stubs::alloc_capped)]
        #[kani::stub(alloc::alloc::alloc_zeroed, crate::stubs::alloc_zeroed_capped)]
        #[kani::stub(alloc::alloc::realloc, crate::stubs::realloc_capped)]
        #[kani::stub(<[u8; 4] as core::convert::TryFrom<&[u8]>>::try_from, crate::stubs::array_try_from)]
        fn $name() {
            type31_far_pointer($p);
        }
    };
}
far_pointer_harness!(c04_type31_far_pointer_256m, 0x1000_0000);
far_pointer_harness!(c04_type31_far_pointer_max, 0xFFFF_FFFF);
