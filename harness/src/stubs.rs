//! Stubs used through #[kani::stub]; each one is part of the claim of the harness that names it.

/// alloc::fmt::format -> empty string (error-message text is never the subject of a harness using it).
pub fn fmt_format(_args: core::fmt::Arguments<'_>) -> String {
    String::new()
}

/// <[T; N] as TryFrom<&[T]>>::try_from, assertion-checked: nothing is assumed.
pub fn array_try_from<'a, T: Copy + 'a, const N: usize>(
    slice: &'a [T],
) -> Result<[T; N], core::array::TryFromSliceError> {
    assert!(slice.len() == N);
    let mut out: [T; N] = [slice[0]; N];
    let mut i = 0;
    while i < N {
        out[i] = slice[i];
        i += 1;
    }
    Ok(out)
}
