//! Stubs used through #[kani::stub]; each one is part of the claim of the harness that names it.

/// alloc::fmt::format -> empty string (error-message text is never the subject of a harness using it).
pub fn fmt_format(_args: core::fmt::Arguments<'_>) -> String {
    String::new()
}

/// <[T; N] as TryFrom<&[T]>>::try_from, assertion-checked: nothing is assumed.
pub fn array_try_from<'a, T: Copy + 'a, const N: usize>(
    slice: &'a [T],
) -> Result<[T; N], core::array::TryFromSliceError> {
    assert!(slice.len() == N);
    let mut out: [T; N] = [slice[0]; N];
    let mut i = 0;
    while i < N {
        out[i] = slice[i];
        i += 1;
    }
    Ok(out)
}

/// f64::powf restricted to what decode_angle / decode_angular_velocity use: base 2, integral
/// exponent in [-15, 0]; the result 2^k is exact.  Anything else fails the harness (so the stub
/// cannot hide a changed call).  CBMC's own powf is a nondeterministic over-approximation.
pub fn powf_pow2(base: f64, e: f64) -> f64 {
    assert!(base == 2.0, "powf stub: base must be 2");
    let k = e as i32;
    assert!(k as f64 == e && k <= 0 && k >= -15, "powf stub: exponent outside [-15, 0]");
    f64::from_bits(((1023 + k) as u64) << 52)
}

/// C04 memory clause: cap on every single heap allocation request (bytes).  The decoders derive
/// their buffer sizes from 8/16-bit counts (at most 65535 x 46-byte cuts, 65535 x 32-byte segments,
/// 65535 x 31 gate bytes), so 16 MiB is a constant bound with margin; a size taken from an untrusted
/// 32-bit field exceeds it.
pub const ALLOC_CAP: usize = 1 << 24;

/// alloc::alloc::alloc / alloc_zeroed / realloc with the cap asserted, then the system allocator.
pub unsafe fn alloc_capped(layout: core::alloc::Layout) -> *mut u8 {
    assert!(layout.size() <= ALLOC_CAP, "C04: heap allocation request exceeds the constant cap");
    std::alloc::GlobalAlloc::alloc(&std::alloc::System, layout)
}
pub unsafe fn alloc_zeroed_capped(layout: core::alloc::Layout) -> *mut u8 {
    assert!(layout.size() <= ALLOC_CAP, "C04: heap allocation request exceeds the constant cap");
    std::alloc::GlobalAlloc::alloc_zeroed(&std::alloc::System, layout)
}
pub unsafe fn realloc_capped(ptr: *mut u8, layout: core::alloc::Layout, new_size: usize) -> *mut u8 {
    assert!(new_size <= ALLOC_CAP, "C04: heap allocation request exceeds the constant cap");
    std::alloc::GlobalAlloc::realloc(&std::alloc::System, ptr, layout, new_size)
}

/// Native side of the cap (concrete playback runs without stubs): the test build of this crate
/// installs a recording global allocator (lib.rs); this asserts the largest request seen so far.
/// Under verification it is a no-op (the stubs above assert at the allocation itself).
pub fn alloc_check() {
    #[cfg(test)]
    {
        let m = crate::native_alloc::max_request();
        assert!(m <= ALLOC_CAP, "C04: heap allocation request exceeds the constant cap");
    }
}

/// core::slice::memchr::{memchr, memrchr} without the word-at-a-time fast path (which aligns a raw
/// pointer - nondeterministic in CBMC, so `str::split('-')` on a 21-byte name exhausted 10 GB): the
/// plain byte loop, same result for every input.  With it ChunkIdentifier::sequence is decided on
/// symbolic names in a minute.
pub fn memchr_naive(x: u8, text: &[u8]) -> Option<usize> {
    let mut i = 0;
    while i < text.len() {
        if text[i] == x {
            return Some(i);
        }
        i += 1;
    }
    None
}
pub fn memrchr_naive(x: u8, text: &[u8]) -> Option<usize> {
    let mut i = text.len();
    while i > 0 {
        i -= 1;
        if text[i] == x {
            return Some(i);
        }
    }
    None
}
