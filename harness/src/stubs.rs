//! Stubs used through #[kani::stub]; each one is part of the claim of the harness that names it.

/// alloc::fmt::format -> empty string (error-message text is never the subject of a harness using it).
pub fn fmt_format(_args: core::fmt::Arguments<'_>) -> String {
    String::new()
}

/// <[T; N] as TryFrom<&[T]>>::try_from, assertion-checked: nothing is assumed.
pub fn array_try_from<'a, T: Copy + 'a, const N: usize>(
    slice: &'a [T],
) -> Result<[T; N], core::array::TryFromSliceError> {
    assert!(slice.len() == N);
    let mut out: [T; N] = [slice[0]; N];
    let mut i = 0;
    while i < N {
        out[i] = slice[i];
        i += 1;
    }
    Ok(out)
}

/// f64::powf restricted to what decode_angle / decode_angular_velocity use: base 2, integral
/// exponent in [-15, 0]; the result 2^k is exact.  Anything else fails the harness (so the stub
/// cannot hide a changed call).  CBMC's own powf is a nondeterministic over-approximation.
pub fn powf_pow2(base: f64, e: f64) -> f64 {
    assert!(base == 2.0, "powf stub: base must be 2");
    let k = e as i32;
    assert!(k as f64 == e && k <= 0 && k >= -15, "powf stub: exponent outside [-15, 0]");
    f64::from_bits(((1023 + k) as u64) << 52)
}
