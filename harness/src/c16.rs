//! C16 — chunk and archive identifiers: parsing and successor arithmetic.
use crate::c19::{any_digits, chunk_id};
use nexrad_data::aws::archive::Identifier;
use nexrad_data::aws::realtime::{ChunkIdentifier, ChunkType, NextChunk, VolumeIndex};

// Free bytes inside the sequence field make str::split/parse exhaust CBMC; the type letter (read
// with chars().last()) is free, the sequence parser runs on concrete names, and the successor
// arithmetic is decided with ChunkIdentifier::sequence replaced by an arbitrary value (as in C19).

/// Sequence parsing on CONCRETE names only: even one free byte inside the sequence field makes
/// str::split + parse::<usize> exhaust CBMC (10 GB, no verdict), so the solver merely executes these
/// representatives (boundaries 001, 054, 055, 056, 999; a '-' and a letter inside the field).
#[kani::proof]
#[kani::unwind(24)]
#[kani::stub(alloc::fmt::format, crate::stubs::fmt_format)]
fn c16_parse_concrete() {
    let cases: [([u8; 3], Option<usize>); 8] = [
        (*b"001", Some(1)),
        (*b"014", Some(14)),
        (*b"054", Some(54)),
        (*b"055", Some(55)),
        (*b"056", Some(56)),
        (*b"999", Some(999)),
        (*b"0-4", Some(0)), // "20240813-123330-0-4-I": third dash-separated field is "0"
        (*b"0a4", None),
    ];
    let mut i = 0;
    while i < 8 {
        let id = chunk_id(cases[i].0, b'I', 50, None);
        assert!(id.sequence() == cases[i].1, "C16: sequence does not parse back");
        assert!(id.name_prefix().as_bytes() == b"20240813-123330", "C16: prefix is the first 15 characters");
        assert!(id.volume().as_number() == 50 && id.site().as_bytes() == b"KTLX");
        core::mem::forget(id);
        i += 1;
    }
    wit!(i == 8);
}

/// Type letter: S start, I intermediate, E end, anything else none (all ASCII letters).
#[kani::proof]
#[kani::unwind(24)]
#[kani::stub(alloc::fmt::format, crate::stubs::fmt_format)]
fn c16_parse_letter() {
    let letter: u8 = kani::any();
    kani::assume(letter < 0x80);
    let id = chunk_id([b'0', b'1', b'4'], letter, 50, None);
    let want = match letter {
        b'S' => Some(ChunkType::Start),
        b'I' => Some(ChunkType::Intermediate),
        b'E' => Some(ChunkType::End),
        _ => None,
    };
    assert!(id.chunk_type() == want, "C16: chunk type does not parse back");
    assert!(id.name_prefix().as_bytes() == b"20240813-123330", "C16: prefix is the first 15 characters");
    assert!(id.volume().as_number() == 50 && id.site().as_bytes() == b"KTLX");
    wit!(letter == b'E');
    wit!(letter == b'x');
    core::mem::forget(id);
}

/// Successor at and beyond sequence 55: next volume in rotation, 999 wraps to 1, never 0 or 1000
/// (every sequence value >= 55, every volume 1..=999).
#[kani::proof]
#[kani::unwind(24)]
#[kani::stub(alloc::fmt::format, crate::stubs::fmt_format)]
#[kani::stub(nexrad_data::aws::realtime::ChunkIdentifier::sequence, crate::c19::stub_sequence)]
fn c16_successor_volume() {
    let n: usize = kani::any();
    kani::assume(n >= 55);
    crate::c19::set_stub_sequence(Some(n));
    let v: usize = kani::any();
    kani::assume(v >= 1 && v <= 999);
    let id = chunk_id([b'0', b'5', b'5'], b'E', v, None);
    match id.next_chunk() {
        Some(NextChunk::Volume(nv)) => {
            let want = if v == 999 { 1 } else { v + 1 };
            assert!(nv.as_number() == want, "C16: wrong next volume in rotation");
            assert!(nv.as_number() >= 1 && nv.as_number() <= 999, "C16: volume 0 or 1000 named");
        }
        _ => panic!("C16: after sequence 55 the successor must be the next volume"),
    }
    wit!(v == 999 && n == 55);
    wit!(v == 998);
    core::mem::forget(id);
}

/// Successor below 55 stays in the same volume and site (the successor's *name* goes through
/// core::fmt, stubbed here); unparsable sequence -> none.
#[kani::proof]
#[kani::unwind(24)]
#[kani::stub(alloc::fmt::format, crate::stubs::fmt_format)]
#[kani::stub(nexrad_data::aws::realtime::ChunkIdentifier::sequence, crate::c19::stub_sequence)]
fn c16_successor_sequence() {
    let n: Option<usize> = kani::any();
    if let Some(x) = n {
        kani::assume(x < 55);
    }
    crate::c19::set_stub_sequence(n);
    let v: usize = kani::any();
    kani::assume(v >= 1 && v <= 999);
    let id = chunk_id([b'0', b'0', b'7'], b'I', v, None);
    match (id.next_chunk(), n) {
        (Some(NextChunk::Sequence(next)), Some(_)) => {
            assert!(next.volume().as_number() == v, "C16: successor below 55 must stay in the volume");
            assert!(next.site().as_bytes() == b"KTLX", "C16: successor must keep the site");
            assert!(next.date_time().is_none());
            core::mem::forget(next);
        }
        (None, None) => {}
        _ => panic!("C16: below sequence 55 the successor is the next sequence in the same volume; unparsable -> none"),
    }
    wit!(n == Some(54));
    wit!(n.is_none());
    core::mem::forget(id);
}

/// chrono's strftime-style parsers are outside reach; they are replaced by "any result" so that
/// the archive-name slicing around them is still decided for every string.
pub fn stub_date_parse(_s: &str, _fmt: &str) -> chrono::ParseResult<chrono::NaiveDate> {
    if kani::any() {
        match chrono::NaiveDate::from_ymd_opt(2024, 8, 13) {
            Some(d) => Ok(d),
            None => panic!("harness"),
        }
    } else {
        // a genuine ParseError value, obtained from a parser that is not stubbed, on empty input
        match chrono::NaiveDateTime::parse_from_str("", "") {
            Err(e) => Err(e),
            Ok(_) => panic!("harness: empty input parsed"),
        }
    }
}
pub fn stub_time_parse(_s: &str, _fmt: &str) -> chrono::ParseResult<chrono::NaiveTime> {
    if kani::any() {
        match chrono::NaiveTime::from_hms_opt(12, 33, 30) {
            Some(t) => Ok(t),
            None => panic!("harness"),
        }
    } else {
        match chrono::NaiveDateTime::parse_from_str("", "") {
            Err(e) => Err(e),
            Ok(_) => panic!("harness: empty input parsed"),
        }
    }
}

/// Archive Identifier::site/date_time on strings of 0..=24 bytes made of free ASCII bytes with one
/// two-byte character at a free position (valid UTF-8 by construction): both return without
/// panicking; an all-ASCII name of the documented shape reaches the date and time parsers.
#[kani::proof]
#[kani::unwind(28)]
#[kani::stub(chrono::NaiveDate::parse_from_str, stub_date_parse)]
#[kani::stub(chrono::NaiveTime::parse_from_str, stub_time_parse)]
fn c16_archive_name_total() {
    let mut b: [u8; 24] = kani::any();
    let n: usize = kani::any();
    kani::assume(n <= 24);
    let k: usize = kani::any();
    let multibyte: bool = kani::any();
    let mut i = 0;
    while i < 24 {
        b[i] &= 0x7f;
        i += 1;
    }
    if multibyte {
        kani::assume(k < 24 && k + 1 < n);
        b[k] = 0xC3;
        b[k + 1] = 0xA9;
    }
    let s = unsafe { String::from_utf8_unchecked(b[..n].to_vec()) };
    let id = Identifier::new(s);
    let site = id.site();
    let dt = id.date_time();
    if n < 19 {
        assert!(dt.is_none(), "C16: a name too short for SSSSYYYYMMDD_HHMMSS has no date-time");
    }
    match site {
        Some(st) => {
            let sb = st.as_bytes();
            assert!(n >= 4 && sb.len() == 4 && sb[0] == b[0] && sb[1] == b[1] && sb[2] == b[2] && sb[3] == b[3], "C16: site is the first four bytes");
        }
        None => assert!(n < 4 || (multibyte && k == 3), "C16: site missing although four bytes on a character boundary exist"),
    }
    wit!(multibyte && k == 3 && n == 24);
    wit!(multibyte && k == 11 && n == 24);
    wit!(!multibyte && n == 23 && dt.is_some());
    wit!(n == 0);
    core::mem::forget(id);
}

// ---------------------------------------------------------------------------------------------
// With core::slice::memchr::{memchr, memrchr} replaced by their naive byte loops (stubs.rs) the REAL
// ChunkIdentifier::sequence (str::split('-').nth(2) + parse::<usize>) is within reach.
// ---------------------------------------------------------------------------------------------

/// Every three-digit sequence field 000..=999 parses back to its number, with the type letter and
/// prefix, on the real parser.
#[kani::proof]
#[kani::unwind(24)]
#[kani::stub(alloc::fmt::format, crate::stubs::fmt_format)]
#[kani::stub(core::slice::memchr::memchr, crate::stubs::memchr_naive)]
#[kani::stub(core::slice::memchr::memrchr, crate::stubs::memrchr_naive)]
fn c16_sequence_digits() {
    let (d, n) = any_digits();
    let id = chunk_id(d, b'I', 50, None);
    assert!(id.sequence() == Some(n), "C16: sequence does not parse back");
    wit!(n == 55);
    wit!(n == 0);
    wit!(n == 999);
    core::mem::forget(id);
}

/// Any three ASCII bytes in the sequence field: the parser returns (never panics) and yields the
/// number exactly when the field is all digits (a '+' sign is accepted by usize::from_str, a '-'
/// splits the field; both are checked against an independent reading of the same bytes).
#[kani::proof]
#[kani::unwind(24)]
#[kani::stub(alloc::fmt::format, crate::stubs::fmt_format)]
#[kani::stub(core::slice::memchr::memchr, crate::stubs::memchr_naive)]
#[kani::stub(core::slice::memchr::memrchr, crate::stubs::memrchr_naive)]
fn c16_sequence_field_ascii() {
    let d: [u8; 3] = kani::any();
    kani::assume(d[0] < 0x80 && d[1] < 0x80 && d[2] < 0x80);
    let id = chunk_id(d, b'I', 50, None);
    let got = id.sequence();
    let dig = |c: u8| c >= b'0' && c <= b'9';
    let val = |c: u8| (c - b'0') as usize;
    // third dash-separated field = bytes of d up to the first '-'
    let want: Option<usize> = if d[0] == b'-' {
        None // empty field
    } else if d[1] == b'-' {
        if dig(d[0]) { Some(val(d[0])) } else { None }
    } else if d[2] == b'-' {
        if dig(d[0]) && dig(d[1]) {
            Some(val(d[0]) * 10 + val(d[1]))
        } else if d[0] == b'+' && dig(d[1]) {
            Some(val(d[1]))
        } else {
            None
        }
    } else if dig(d[0]) && dig(d[1]) && dig(d[2]) {
        Some(val(d[0]) * 100 + val(d[1]) * 10 + val(d[2]))
    } else if d[0] == b'+' && dig(d[1]) && dig(d[2]) {
        Some(val(d[1]) * 10 + val(d[2]))
    } else {
        None
    };
    assert!(got == want, "C16: sequence field parsed to something other than its digits");
    wit!(got == Some(7));
    wit!(got.is_none());
    core::mem::forget(id);
}

/// Arbitrary chunk names (0..=24 bytes, ASCII with one two-byte character anywhere): the sequence
/// and type parsers return without panicking.
#[kani::proof]
#[kani::unwind(28)]
#[kani::stub(alloc::fmt::format, crate::stubs::fmt_format)]
#[kani::stub(core::slice::memchr::memchr, crate::stubs::memchr_naive)]
#[kani::stub(core::slice::memchr::memrchr, crate::stubs::memrchr_naive)]
fn c16_chunk_name_total() {
    let mut b: [u8; 24] = kani::any();
    let n: usize = kani::any();
    kani::assume(n <= 24);
    let k: usize = kani::any();
    let multibyte: bool = kani::any();
    let mut i = 0;
    while i < 24 {
        b[i] &= 0x7f;
        i += 1;
    }
    if multibyte {
        kani::assume(k < 24 && k + 1 < n);
        b[k] = 0xC3;
        b[k + 1] = 0xA9;
    }
    let s = unsafe { String::from_utf8_unchecked(b[..n].to_vec()) };
    let id = ChunkIdentifier::new(String::from("KTLX"), VolumeIndex::new(50), s, None);
    let seq = id.sequence();
    let ty = id.chunk_type();
    if n == 0 {
        assert!(seq.is_none() && ty.is_none(), "C16: empty name parses to something");
    }
    if let Some(t) = ty {
        let last = b[n - 1];
        assert!((t == ChunkType::Start) == (last == b'S') && (t == ChunkType::End) == (last == b'E') && (t == ChunkType::Intermediate) == (last == b'I'), "C16: type letter");
    }
    wit!(n == 0);
    wit!(n == 17 && seq.is_none());
    wit!(multibyte && k == 18 && n == 24);
    wit!(seq.is_some() && n == 24);
    core::mem::forget(id);
}

/// Successor on the REAL parser: every three-digit sequence x every volume 1..=999.  Below 55 the
/// successor stays in the volume (its name goes through core::fmt, stubbed: not checked here), from
/// 55 on it is the next volume in rotation with 999 wrapping to 1.
#[kani::proof]
#[kani::unwind(24)]
#[kani::stub(alloc::fmt::format, crate::stubs::fmt_format)]
#[kani::stub(core::slice::memchr::memchr, crate::stubs::memchr_naive)]
#[kani::stub(core::slice::memchr::memrchr, crate::stubs::memrchr_naive)]
fn c16_successor_real_parser() {
    let (d, n) = any_digits();
    let v: usize = kani::any();
    kani::assume(v >= 1 && v <= 999);
    let id = chunk_id(d, b'I', v, None);
    match id.next_chunk() {
        Some(NextChunk::Sequence(next)) => {
            assert!(n < 55, "C16: a sequence at or beyond 55 must move to the next volume");
            assert!(next.volume().as_number() == v && next.site().as_bytes() == b"KTLX", "C16: successor below 55 keeps volume and site");
            core::mem::forget(next);
        }
        Some(NextChunk::Volume(nv)) => {
            assert!(n >= 55, "C16: a sequence below 55 must stay in its volume");
            let want = if v == 999 { 1 } else { v + 1 };
            assert!(nv.as_number() == want, "C16: wrong next volume in rotation");
        }
        None => panic!("C16: a parsable sequence has a successor"),
    }
    wit!(n == 54);
    wit!(n == 55 && v == 999);
    wit!(n == 55 && v == 998);
    core::mem::forget(id);
}

/// Truncated / garbled chunk names (a symbolic length or fully free content ran out of 16-30 GB): the
/// concrete prefix "20240813-123330-" followed by T free ASCII bytes (T = 0..=5: names of 16..=21 bytes,
/// i.e. every truncation point inside the sequence field and the type letter), optionally with one
/// two-byte character at tail position K, goes through the real sequence and type parsers without a
/// panic, and the type is read off the last character.
fn chunk_name_tail<const T: usize, const K: usize>() {
    let mut b = [0u8; 21];
    let pre = *b"20240813-123330-";
    let mut i = 0;
    while i < 16 {
        b[i] = pre[i];
        i += 1;
    }
    let t: [u8; 5] = kani::any();
    let mut i = 0;
    while i < T {
        b[16 + i] = t[i] & 0x7f;
        i += 1;
    }
    if K + 1 < T {
        b[16 + K] = 0xC3;
        b[16 + K + 1] = 0xA9;
    }
    let n = 16 + T;
    let s = unsafe { String::from_utf8_unchecked(b[..n].to_vec()) };
    let id = ChunkIdentifier::new(String::from("KTLX"), VolumeIndex::new(50), s, None);
    let seq = id.sequence();
    let ty = id.chunk_type();
    if let Some(t) = ty {
        let last = b[n - 1];
        assert!((t == ChunkType::Start) == (last == b'S') && (t == ChunkType::End) == (last == b'E') && (t == ChunkType::Intermediate) == (last == b'I'), "C16: type letter");
    }
    if T == 0 {
        assert!(seq.is_none(), "C16: an empty sequence field parses to a number");
    }
    wit!(seq.is_none());
    core::mem::forget(id);
}

macro_rules! name_tail_harness {
    ($name:ident, $t:expr, $k:expr) => {
        #[kani::proof]
        #[kani::unwind(28)]
        #[kani::stub(alloc::fmt::format, crate::stubs::fmt_format)]
        #[kani::stub(core::slice::memchr::memchr, crate::stubs::memchr_naive)]
        #[kani::stub(core::slice::memchr::memrchr, crate::stubs::memrchr_naive)]
        fn $name() {
            chunk_name_tail::<$t, $k>();
        }
    };
}
name_tail_harness!(c16_chunk_name_tail0, 0, 99);
name_tail_harness!(c16_chunk_name_tail1, 1, 99);
name_tail_harness!(c16_chunk_name_tail2, 2, 99);
name_tail_harness!(c16_chunk_name_tail3, 3, 99);
name_tail_harness!(c16_chunk_name_tail4, 4, 99);
name_tail_harness!(c16_chunk_name_tail5, 5, 99);
name_tail_harness!(c16_chunk_name_tail5_mb2, 5, 2);
name_tail_harness!(c16_chunk_name_tail5_mb3, 5, 3);
name_tail_harness!(c16_chunk_name_tail3_mb1, 3, 1);

// ---------------------------------------------------------------------------------------------
// Archive names, positive clause: for SSSSYYYYMMDD_HHMMSS + suffix the parsers must be handed
// exactly the date field (bytes 4..12) and the time field (bytes 13..19).  chrono's strftime
// interpreter is outside reach, so the two parse functions are replaced by recorders that accept
// exactly "8 digits" / "6 digits" (what chrono accepts for the constrained digits below) and note
// what they were given; the value of the instant is then chrono's business (C08 covers the
// arithmetic), the slicing is the repository's.
// ---------------------------------------------------------------------------------------------
static mut SEEN_DATE: Option<[u8; 8]> = None;
static mut SEEN_TIME: Option<[u8; 6]> = None;

fn all_digits(b: &[u8]) -> bool {
    let mut i = 0;
    while i < b.len() {
        if b[i] < b'0' || b[i] > b'9' {
            return false;
        }
        i += 1;
    }
    true
}

pub fn rec_date_parse(s: &str, fmt: &str) -> chrono::ParseResult<chrono::NaiveDate> {
    assert!(fmt.as_bytes() == b"%Y%m%d", "C16: date format string");
    let b = s.as_bytes();
    if b.len() == 8 && all_digits(b) {
        unsafe {
            SEEN_DATE = Some([b[0], b[1], b[2], b[3], b[4], b[5], b[6], b[7]]);
        }
        match chrono::NaiveDate::from_ymd_opt(2024, 8, 13) {
            Some(d) => Ok(d),
            None => panic!("harness"),
        }
    } else {
        match chrono::NaiveDateTime::parse_from_str("", "") {
            Err(e) => Err(e),
            Ok(_) => panic!("harness: empty input parsed"),
        }
    }
}

pub fn rec_time_parse(s: &str, fmt: &str) -> chrono::ParseResult<chrono::NaiveTime> {
    assert!(fmt.as_bytes() == b"%H%M%S", "C16: time format string");
    let b = s.as_bytes();
    if b.len() == 6 && all_digits(b) {
        unsafe {
            SEEN_TIME = Some([b[0], b[1], b[2], b[3], b[4], b[5]]);
        }
        match chrono::NaiveTime::from_hms_opt(12, 33, 30) {
            Some(t) => Ok(t),
            None => panic!("harness"),
        }
    } else {
        match chrono::NaiveDateTime::parse_from_str("", "") {
            Err(e) => Err(e),
            Ok(_) => panic!("harness: empty input parsed"),
        }
    }
}

#[kani::proof]
#[kani::unwind(28)]
#[kani::stub(chrono::NaiveDate::parse_from_str, rec_date_parse)]
#[kani::stub(chrono::NaiveTime::parse_from_str, rec_time_parse)]
#[kani::stub(core::slice::memchr::memchr, crate::stubs::memchr_naive)]
#[kani::stub(core::slice::memchr::memrchr, crate::stubs::memrchr_naive)]
fn c16_archive_name_wellformed() {
    let mut b: [u8; 24] = kani::any();
    let n: usize = kani::any();
    kani::assume(n >= 19 && n <= 24);
    let mut i = 0;
    while i < 24 {
        b[i] &= 0x7f;
        i += 1;
    }
    // site: four ASCII letters or digits; date and time: digits of a valid calendar date / time of day
    let mut i = 0;
    while i < 4 {
        kani::assume((b[i] >= b'A' && b[i] <= b'Z') || (b[i] >= b'0' && b[i] <= b'9'));
        i += 1;
    }
    kani::assume(all_digits(&b[4..12]) && all_digits(&b[13..19]));
    let two = |h: u8, l: u8| (h - b'0') * 10 + (l - b'0');
    kani::assume(two(b[8], b[9]) >= 1 && two(b[8], b[9]) <= 12 && two(b[10], b[11]) >= 1 && two(b[10], b[11]) <= 28);
    kani::assume(two(b[13], b[14]) <= 23 && two(b[15], b[16]) <= 59 && two(b[17], b[18]) <= 59);
    b[12] = b'_';
    let s = unsafe { String::from_utf8_unchecked(b[..n].to_vec()) };
    let id = Identifier::new(s);
    match id.site() {
        Some(st) => {
            let sb = st.as_bytes();
            assert!(sb.len() == 4 && sb[0] == b[0] && sb[1] == b[1] && sb[2] == b[2] && sb[3] == b[3], "C16: site is the first four bytes");
        }
        None => panic!("C16: site missing on a well-formed archive name"),
    }
    let dt = id.date_time();
    assert!(dt.is_some(), "C16: date-time not recovered from a well-formed archive name (any suffix)");
    let (sd, st) = unsafe { (SEEN_DATE, SEEN_TIME) };
    match (sd, st) {
        (Some(d), Some(t)) => {
            let mut i = 0;
            while i < 8 {
                assert!(d[i] == b[4 + i], "C16: date parsed from something other than bytes 4..12");
                i += 1;
            }
            let mut i = 0;
            while i < 6 {
                assert!(t[i] == b[13 + i], "C16: time parsed from something other than bytes 13..19");
                i += 1;
            }
        }
        _ => panic!("C16: date or time parser not reached on a well-formed archive name"),
    }
    wit!(n == 19);
    wit!(n == 24 && b[19] == b'_');
    wit!(n == 22 && b[19] == b'.');
    wit!(n == 22 && b[19] == b'V');
    core::mem::forget(id);
}

/// Successor NAME text through the real core::fmt (no fmt stub): for every three-digit sequence below
/// 55 the successor's name is prefix + "-" + (sequence + 1, zero-padded to three digits) + "-" + type
/// letter (E exactly at 55), and it parses back to sequence + 1 on the real parser.
#[kani::proof]
#[kani::unwind(24)]
#[kani::stub(core::slice::memchr::memchr, crate::stubs::memchr_naive)]
#[kani::stub(core::slice::memchr::memrchr, crate::stubs::memrchr_naive)]
fn c16_successor_name_text() {
    let (d, n) = any_digits();
    kani::assume(n < 55);
    let id = chunk_id(d, b'I', 50, None);
    match id.next_chunk() {
        Some(NextChunk::Sequence(next)) => {
            let nb = next.name().as_bytes();
            assert!(nb.len() == 21, "C16: successor name length");
            let pre = b"20240813-123330-";
            let mut i = 0;
            while i < 16 {
                assert!(nb[i] == pre[i], "C16: successor keeps the name prefix");
                i += 1;
            }
            let m = n + 1;
            assert!(nb[16] == b'0' + (m / 100) as u8 && nb[17] == b'0' + ((m / 10) % 10) as u8 && nb[18] == b'0' + (m % 10) as u8, "C16: successor sequence digits");
            assert!(nb[19] == b'-' && nb[20] == if m == 55 { b'E' } else { b'I' }, "C16: successor type letter");
            core::mem::forget(next);
        }
        _ => panic!("C16: below 55 the successor is the next sequence"),
    }
    wit!(n == 54);
    wit!(n == 0);
    core::mem::forget(id);
}

/// Twins of c16_archive_name_wellformed with a CONCRETE suffix (and concrete site), so that a parser
/// which locates the fields by searching for separators instead of by position is decided as well
/// (with a free suffix such a parser's search positions are symbolic: out of 12 GB).
fn archive_wellformed_suffix(suffix: &[u8]) {
    let mut b = [0u8; 24];
    b[0] = b'K';
    b[1] = b'T';
    b[2] = b'L';
    b[3] = b'X';
    let d: [u8; 14] = kani::any();
    kani::assume(all_digits(&d));
    let two = |h: u8, l: u8| (h - b'0') * 10 + (l - b'0');
    kani::assume(two(d[4], d[5]) >= 1 && two(d[4], d[5]) <= 12 && two(d[6], d[7]) >= 1 && two(d[6], d[7]) <= 28);
    kani::assume(two(d[8], d[9]) <= 23 && two(d[10], d[11]) <= 59 && two(d[12], d[13]) <= 59);
    let mut i = 0;
    while i < 8 {
        b[4 + i] = d[i];
        i += 1;
    }
    b[12] = b'_';
    let mut i = 0;
    while i < 6 {
        b[13 + i] = d[8 + i];
        i += 1;
    }
    let mut i = 0;
    while i < suffix.len() {
        b[19 + i] = suffix[i];
        i += 1;
    }
    let n = 19 + suffix.len();
    let s = unsafe { String::from_utf8_unchecked(b[..n].to_vec()) };
    let id = Identifier::new(s);
    let dt = id.date_time();
    assert!(dt.is_some(), "C16: date-time not recovered from a well-formed archive name (any suffix)");
    let (sd, st) = unsafe { (SEEN_DATE, SEEN_TIME) };
    match (sd, st) {
        (Some(dd), Some(tt)) => {
            let mut i = 0;
            while i < 8 {
                assert!(dd[i] == d[i], "C16: date parsed from something other than bytes 4..12");
                i += 1;
            }
            let mut i = 0;
            while i < 6 {
                assert!(tt[i] == d[8 + i], "C16: time parsed from something other than bytes 13..19");
                i += 1;
            }
        }
        _ => panic!("C16: date or time parser not reached on a well-formed archive name"),
    }
    wit!(d[13] == b'7');
    core::mem::forget(id);
}

macro_rules! archive_suffix_harness {
    ($name:ident, $suffix:expr) => {
        #[kani::proof]
        #[kani::unwind(28)]
        #[kani::stub(chrono::NaiveDate::parse_from_str, rec_date_parse)]
        #[kani::stub(chrono::NaiveTime::parse_from_str, rec_time_parse)]
        #[kani::stub(core::slice::memchr::memchr, crate::stubs::memchr_naive)]
        #[kani::stub(core::slice::memchr::memrchr, crate::stubs::memrchr_naive)]
        fn $name() {
            archive_wellformed_suffix($suffix);
        }
    };
}
archive_suffix_harness!(c16_archive_suffix_none, b"");
archive_suffix_harness!(c16_archive_suffix_gz, b".gz");
archive_suffix_harness!(c16_archive_suffix_v06, b"V06");
archive_suffix_harness!(c16_archive_suffix_us_v06, b"_V06");
