//! C16 — chunk and archive identifiers: parsing and successor arithmetic.
use crate::c19::{any_digits, chunk_id};
use nexrad_data::aws::archive::Identifier;
use nexrad_data::aws::realtime::{ChunkIdentifier, ChunkType, NextChunk, VolumeIndex};

// Free bytes inside the sequence field make str::split/parse exhaust CBMC; the type letter (read
// with chars().last()) is free, the sequence parser runs on concrete names, and the successor
// arithmetic is decided with ChunkIdentifier::sequence replaced by an arbitrary value (as in C19).

/// Sequence parsing on CONCRETE names only: even one free byte inside the sequence field makes
/// str::split + parse::<usize> exhaust CBMC (10 GB, no verdict), so the solver merely executes these
/// representatives (boundaries 001, 054, 055, 056, 999; a '-' and a letter inside the field).
#[kani::proof]
#[kani::unwind(24)]
#[kani::stub(alloc::fmt::format, crate::stubs::fmt_format)]
fn c16_parse_concrete() {
    let cases: [([u8; 3], Option<usize>); 8] = [
        (*b"001", Some(1)),
        (*b"014", Some(14)),
        (*b"054", Some(54)),
        (*b"055", Some(55)),
        (*b"056", Some(56)),
        (*b"999", Some(999)),
        (*b"0-4", Some(0)), // "20240813-123330-0-4-I": third dash-separated field is "0"
        (*b"0a4", None),
    ];
    let mut i = 0;
    while i < 8 {
        let id = chunk_id(cases[i].0, b'I', 50, None);
        assert!(id.sequence() == cases[i].1, "C16: sequence does not parse back");
        assert!(id.name_prefix().as_bytes() == b"20240813-123330", "C16: prefix is the first 15 characters");
        assert!(id.volume().as_number() == 50 && id.site().as_bytes() == b"KTLX");
        core::mem::forget(id);
        i += 1;
    }
    wit!(i == 8);
}

/// Type letter: S start, I intermediate, E end, anything else none (all ASCII letters).
#[kani::proof]
#[kani::unwind(24)]
#[kani::stub(alloc::fmt::format, crate::stubs::fmt_format)]
fn c16_parse_letter() {
    let letter: u8 = kani::any();
    kani::assume(letter < 0x80);
    let id = chunk_id([b'0', b'1', b'4'], letter, 50, None);
    let want = match letter {
        b'S' => Some(ChunkType::Start),
        b'I' => Some(ChunkType::Intermediate),
        b'E' => Some(ChunkType::End),
        _ => None,
    };
    assert!(id.chunk_type() == want, "C16: chunk type does not parse back");
    assert!(id.name_prefix().as_bytes() == b"20240813-123330", "C16: prefix is the first 15 characters");
    assert!(id.volume().as_number() == 50 && id.site().as_bytes() == b"KTLX");
    wit!(letter == b'E');
    wit!(letter == b'x');
    core::mem::forget(id);
}

/// Successor at and beyond sequence 55: next volume in rotation, 999 wraps to 1, never 0 or 1000
/// (every sequence value >= 55, every volume 1..=999).
#[kani::proof]
#[kani::unwind(24)]
#[kani::stub(alloc::fmt::format, crate::stubs::fmt_format)]
#[kani::stub(nexrad_data::aws::realtime::ChunkIdentifier::sequence, crate::c19::stub_sequence)]
fn c16_successor_volume() {
    let n: usize = kani::any();
    kani::assume(n >= 55);
    crate::c19::set_stub_sequence(Some(n));
    let v: usize = kani::any();
    kani::assume(v >= 1 && v <= 999);
    let id = chunk_id([b'0', b'5', b'5'], b'E', v, None);
    match id.next_chunk() {
        Some(NextChunk::Volume(nv)) => {
            let want = if v == 999 { 1 } else { v + 1 };
            assert!(nv.as_number() == want, "C16: wrong next volume in rotation");
            assert!(nv.as_number() >= 1 && nv.as_number() <= 999, "C16: volume 0 or 1000 named");
        }
        _ => panic!("C16: after sequence 55 the successor must be the next volume"),
    }
    wit!(v == 999 && n == 55);
    wit!(v == 998);
    core::mem::forget(id);
}

/// Successor below 55 stays in the same volume and site (the successor's *name* goes through
/// core::fmt, stubbed here); unparsable sequence -> none.
#[kani::proof]
#[kani::unwind(24)]
#[kani::stub(alloc::fmt::format, crate::stubs::fmt_format)]
#[kani::stub(nexrad_data::aws::realtime::ChunkIdentifier::sequence, crate::c19::stub_sequence)]
fn c16_successor_sequence() {
    let n: Option<usize> = kani::any();
    if let Some(x) = n {
        kani::assume(x < 55);
    }
    crate::c19::set_stub_sequence(n);
    let v: usize = kani::any();
    kani::assume(v >= 1 && v <= 999);
    let id = chunk_id([b'0', b'0', b'7'], b'I', v, None);
    match (id.next_chunk(), n) {
        (Some(NextChunk::Sequence(next)), Some(_)) => {
            assert!(next.volume().as_number() == v, "C16: successor below 55 must stay in the volume");
            assert!(next.site().as_bytes() == b"KTLX", "C16: successor must keep the site");
            assert!(next.date_time().is_none());
            core::mem::forget(next);
        }
        (None, None) => {}
        _ => panic!("C16: below sequence 55 the successor is the next sequence in the same volume; unparsable -> none"),
    }
    wit!(n == Some(54));
    wit!(n.is_none());
    core::mem::forget(id);
}

/// chrono's strftime-style parsers are outside reach; they are replaced by "any result" so that
/// the archive-name slicing around them is still decided for every string.
pub fn stub_date_parse(_s: &str, _fmt: &str) -> chrono::ParseResult<chrono::NaiveDate> {
    if kani::any() {
        match chrono::NaiveDate::from_ymd_opt(2024, 8, 13) {
            Some(d) => Ok(d),
            None => panic!("harness"),
        }
    } else {
        // a genuine ParseError value, obtained from a parser that is not stubbed, on empty input
        match chrono::NaiveDateTime::parse_from_str("", "") {
            Err(e) => Err(e),
            Ok(_) => panic!("harness: empty input parsed"),
        }
    }
}
pub fn stub_time_parse(_s: &str, _fmt: &str) -> chrono::ParseResult<chrono::NaiveTime> {
    if kani::any() {
        match chrono::NaiveTime::from_hms_opt(12, 33, 30) {
            Some(t) => Ok(t),
            None => panic!("harness"),
        }
    } else {
        match chrono::NaiveDateTime::parse_from_str("", "") {
            Err(e) => Err(e),
            Ok(_) => panic!("harness: empty input parsed"),
        }
    }
}

/// Archive Identifier::site/date_time on strings of 0..=24 bytes made of free ASCII bytes with one
/// two-byte character at a free position (valid UTF-8 by construction): both return without
/// panicking; an all-ASCII name of the documented shape reaches the date and time parsers.
#[kani::proof]
#[kani::unwind(28)]
#[kani::stub(chrono::NaiveDate::parse_from_str, stub_date_parse)]
#[kani::stub(chrono::NaiveTime::parse_from_str, stub_time_parse)]
fn c16_archive_name_total() {
    let mut b: [u8; 24] = kani::any();
    let n: usize = kani::any();
    kani::assume(n <= 24);
    let k: usize = kani::any();
    let multibyte: bool = kani::any();
    let mut i = 0;
    while i < 24 {
        b[i] &= 0x7f;
        i += 1;
    }
    if multibyte {
        kani::assume(k < 24 && k + 1 < n);
        b[k] = 0xC3;
        b[k + 1] = 0xA9;
    }
    let s = unsafe { String::from_utf8_unchecked(b[..n].to_vec()) };
    let id = Identifier::new(s);
    let site = id.site();
    let dt = id.date_time();
    if n < 19 {
        assert!(dt.is_none(), "C16: a name too short for SSSSYYYYMMDD_HHMMSS has no date-time");
    }
    match site {
        Some(st) => {
            let sb = st.as_bytes();
            assert!(n >= 4 && sb.len() == 4 && sb[0] == b[0] && sb[1] == b[1] && sb[2] == b[2] && sb[3] == b[3], "C16: site is the first four bytes");
        }
        None => assert!(n < 4 || (multibyte && k == 3), "C16: site missing although four bytes on a character boundary exist"),
    }
    wit!(multibyte && k == 3 && n == 24);
    wit!(multibyte && k == 11 && n == 24);
    wit!(!multibyte && n == 23 && dt.is_some());
    wit!(n == 0);
    core::mem::forget(id);
}
