//! C16 — chunk and archive identifiers: parsing and successor arithmetic.
use crate::c19::{any_digits, chunk_id};
use nexrad_data::aws::archive::Identifier;
use nexrad_data::aws::realtime::{ChunkIdentifier, ChunkType, NextChunk, VolumeIndex};

/// A chunk name parses back to its sequence, type and prefix (all 1000 digit strings, all letters).
#[kani::proof]
#[kani::unwind(24)]
#[kani::stub(alloc::fmt::format, crate::stubs::fmt_format)]
fn c16_parse() {
    let (d, n) = any_digits();
    let letter: u8 = kani::any();
    kani::assume(letter < 0x80);
    let v: usize = kani::any();
    kani::assume(v >= 1 && v <= 999);
    let id = chunk_id(d, letter, v, None);
    assert!(id.sequence() == Some(n), "C16: sequence does not parse back");
    let want = match letter {
        b'S' => Some(ChunkType::Start),
        b'I' => Some(ChunkType::Intermediate),
        b'E' => Some(ChunkType::End),
        _ => None,
    };
    assert!(id.chunk_type() == want, "C16: chunk type does not parse back");
    assert!(id.name_prefix().as_bytes() == b"20240813-123330", "C16: prefix is the first 15 characters");
    assert!(id.volume().as_number() == v);
    assert!(id.site().as_bytes() == b"KTLX");
    wit!(n == 55 && letter == b'E');
    wit!(n == 7 && letter == b'x');
    core::mem::forget(id);
}

/// Successor at and beyond sequence 55: next volume in rotation, 999 wraps to 1, never 0 or 1000.
#[kani::proof]
#[kani::unwind(24)]
#[kani::stub(alloc::fmt::format, crate::stubs::fmt_format)]
fn c16_successor_volume() {
    let (d, n) = any_digits();
    kani::assume(n >= 55);
    let v: usize = kani::any();
    kani::assume(v >= 1 && v <= 999);
    let id = chunk_id(d, b'E', v, None);
    match id.next_chunk() {
        Some(NextChunk::Volume(nv)) => {
            let want = if v == 999 { 1 } else { v + 1 };
            assert!(nv.as_number() == want, "C16: wrong next volume in rotation");
            assert!(nv.as_number() >= 1 && nv.as_number() <= 999, "C16: volume 0 or 1000 named");
        }
        _ => panic!("C16: after sequence 55 the successor must be the next volume"),
    }
    wit!(v == 999 && n == 55);
    wit!(v == 998);
    core::mem::forget(id);
}

/// Successor below 55 stays in the same volume and site (the successor's *name* goes through
/// core::fmt and is checked separately); non-numeric sequence -> none.
#[kani::proof]
#[kani::unwind(24)]
#[kani::stub(alloc::fmt::format, crate::stubs::fmt_format)]
fn c16_successor_sequence() {
    let (d, n) = any_digits();
    kani::assume(n < 55);
    let v: usize = kani::any();
    kani::assume(v >= 1 && v <= 999);
    let id = chunk_id(d, b'I', v, None);
    match id.next_chunk() {
        Some(NextChunk::Sequence(next)) => {
            assert!(next.volume().as_number() == v, "C16: successor below 55 must stay in the volume");
            assert!(next.site().as_bytes() == b"KTLX", "C16: successor must keep the site");
            assert!(next.date_time().is_none());
            core::mem::forget(next);
        }
        _ => panic!("C16: below sequence 55 the successor is the next sequence in the same volume"),
    }
    wit!(n == 54);
    wit!(n == 0);
    core::mem::forget(id);
}

/// Totality of the chunk parsers on arbitrary (non-numeric, short) sequence fields.
#[kani::proof]
#[kani::unwind(24)]
#[kani::stub(alloc::fmt::format, crate::stubs::fmt_format)]
fn c16_parse_total() {
    let d: [u8; 3] = kani::any();
    kani::assume(d[0] < 0x80 && d[1] < 0x80 && d[2] < 0x80);
    let id = chunk_id(d, kani::any::<u8>() & 0x7f, 1, None);
    let s = id.sequence();
    let digits = d[0].is_ascii_digit() && d[1].is_ascii_digit() && d[2].is_ascii_digit();
    if digits {
        assert!(s.is_some());
    }
    let _ = id.chunk_type();
    if s.is_none() {
        assert!(id.next_chunk().is_none(), "C16: unparsable sequence must give no successor");
    }
    wit!(s.is_none());
    wit!(d[0] == b'-' );
    core::mem::forget(id);
}

/// Archive identifier: site() on arbitrary UTF-8 strings of up to 8 bytes (multi-byte included)
/// returns without panicking and, when present, is the first four bytes.
#[kani::proof]
#[kani::unwind(12)]
fn c16_archive_site_total() {
    let b: [u8; 8] = kani::any();
    let n: usize = kani::any();
    kani::assume(n <= 8);
    let s = match String::from_utf8(b[..n].to_vec()) {
        Ok(s) => s,
        Err(_) => return,
    };
    let id = Identifier::new(s);
    match id.site() {
        Some(site) => {
            assert!(n >= 4);
            let sb = site.as_bytes();
            assert!(sb.len() == 4 && sb[0] == b[0] && sb[1] == b[1] && sb[2] == b[2] && sb[3] == b[3]);
        }
        None => {
            // fewer than 4 bytes, or byte 4 is not a character boundary
            assert!(n < 4 || (b[3] >= 0x80 && (n == 4 || true)));
        }
    }
    wit!(n == 8 && b[3] >= 0xC0);
    wit!(n == 3);
    core::mem::forget(id);
}
