//! C09 — sweep grouping and merging conserve radials.
use nexrad_model::data::{Radial, RadialStatus, Sweep};

/// A radial tagged by (timestamp, azimuth number) with the given elevation number, no moments.
fn mk(tag: i64, az: u16, el: u8) -> Radial {
    Radial::new(
        tag,
        az,
        0.0,
        0.5,
        RadialStatus::IntermediateRadialData,
        el,
        0.0,
        None,
        None,
        None,
        None,
        None,
        None,
        None,
    )
}

/// Oracle for from_radials: sweeps are non-empty, their concatenation is the input in order, each
/// is labelled with the common elevation of its radials, adjacent labels differ.
fn check_grouping(sweeps: &Vec<Sweep>, el: &[u8]) {
    let n = el.len();
    let mut idx = 0usize;
    let mut s = 0usize;
    while s < sweeps.len() {
        let sw = &sweeps[s];
        let rs = sw.radials();
        assert!(!rs.is_empty(), "C09: empty sweep produced");
        let mut k = 0usize;
        while k < rs.len() {
            assert!(idx < n, "C09: more radials out than in");
            assert!(rs[k].collection_timestamp() == idx as i64, "C09: radial lost/duplicated/reordered");
            assert!(rs[k].elevation_number() == el[idx], "C09: radial altered");
            assert!(sw.elevation_number() == el[idx], "C09: sweep label is not its radials' elevation");
            idx += 1;
            k += 1;
        }
        if s > 0 {
            assert!(sweeps[s - 1].elevation_number() != sw.elevation_number(), "C09: run not maximal");
        }
        s += 1;
    }
    assert!(idx == n, "C09: radials lost (concatenation shorter than input)");
    if n == 0 {
        assert!(sweeps.is_empty());
    } else {
        assert!(!sweeps.is_empty(), "C09: non-empty input gave no sweep");
    }
}

fn group_n<const N: usize>() {
    let el: [u8; N] = kani::any();
    let mut v = Vec::with_capacity(N);
    let mut i = 0;
    while i < N {
        v.push(mk(i as i64, i as u16, el[i]));
        i += 1;
    }
    let sweeps = Sweep::from_radials(v);
    check_grouping(&sweeps, &el[..]);
    wit!(sweeps.len() == N, "witness: N one-radial sweeps");
    wit!(N == 0 || sweeps.len() == 1, "witness: one sweep of N radials");
    core::mem::forget(sweeps);
}

#[kani::proof]
#[kani::unwind(2)]
fn c09_group_n0() {
    group_n::<0>();
}

#[kani::proof]
#[kani::unwind(3)]
fn c09_group_n1() {
    group_n::<1>();
}

#[kani::proof]
#[kani::unwind(4)]
fn c09_group_n2() {
    group_n::<2>();
}

#[kani::proof]
#[kani::unwind(5)]
fn c09_group_n3() {
    group_n::<3>();
}

#[kani::proof]
#[kani::unwind(6)]
fn c09_group_n4() {
    group_n::<4>();
}

/// merge: result = union of both radial lists ordered by azimuth number, ties first-then-second
/// (tags 0..A are the first sweep in order, A..A+B the second, so "stable" == tags ascending
/// among equal keys).
fn merge_ab<const A: usize, const B: usize>() {
    let az1: [u16; A] = kani::any();
    let az2: [u16; B] = kani::any();
    let e: u8 = kani::any();
    let mut v1 = Vec::new();
    let mut i = 0;
    while i < A {
        v1.push(mk(i as i64, az1[i], e));
        i += 1;
    }
    let mut v2 = Vec::new();
    let mut j = 0;
    while j < B {
        v2.push(mk((A + j) as i64, az2[j], e));
        j += 1;
    }
    let s1 = Sweep::new(e, v1);
    let s2 = Sweep::new(e, v2);
    let m = match s1.merge(s2) {
        Ok(m) => m,
        Err(e) => {
            core::mem::forget(e);
            panic!("C09: merging equal elevation numbers failed")
        }
    };
    assert!(m.elevation_number() == e);
    let rs = m.radials();
    assert!(rs.len() == A + B, "C09: merge lost or duplicated radials");
    // permutation: every tag present exactly once, carrying its own azimuth number
    let mut seen = [false; 8];
    let mut k = 0;
    while k < rs.len() {
        let t = rs[k].collection_timestamp() as usize;
        assert!(t < A + B);
        assert!(!seen[t], "C09: radial duplicated by merge");
        seen[t] = true;
        let want = if t < A { az1[t] } else { az2[t - A] };
        assert!(rs[k].azimuth_number() == want, "C09: radial altered by merge");
        if k > 0 {
            let (pa, pt) = (rs[k - 1].azimuth_number(), rs[k - 1].collection_timestamp());
            assert!(pa <= rs[k].azimuth_number(), "C09: merge result not ordered by azimuth number");
            if pa == rs[k].azimuth_number() {
                assert!(pt < rs[k].collection_timestamp(), "C09: ties not in first-then-second order");
            }
        }
        k += 1;
    }
    wit!(A > 0 && B > 0 && az1[0] == az2[0], "witness: tie across sweeps");
    wit!(A > 0 && B > 0 && az2[0] < az1[0], "witness: second sweep sorts first");
    core::mem::forget(m);
}

#[kani::proof]
#[kani::unwind(6)]
fn c09_merge_2_2() {
    merge_ab::<2, 2>();
}

#[kani::proof]
#[kani::unwind(7)]
fn c09_merge_3_2() {
    merge_ab::<3, 2>();
}

#[kani::proof]
#[kani::unwind(5)]
fn c09_merge_1_2() {
    merge_ab::<1, 2>();
}

/// Different elevation numbers: merge is an error (0+0 and 1+1 radials).
fn mismatch<const K: usize>() {
    let e1: u8 = kani::any();
    let e2: u8 = kani::any();
    let mut v1 = Vec::new();
    let mut v2 = Vec::new();
    if K > 0 {
        v1.push(mk(0, kani::any(), e1));
        v2.push(mk(1, kani::any(), e2));
    }
    let r = Sweep::new(e1, v1).merge(Sweep::new(e2, v2));
    if e1 != e2 {
        assert!(r.is_err(), "C09: merging different elevation numbers must be an error");
    } else {
        assert!(r.is_ok());
    }
    wit!(e1 != e2 && r.is_err());
    wit!(e1 == e2 && r.is_ok());
    core::mem::forget(r);
}

#[kani::proof]
#[kani::unwind(3)]
fn c09_merge_mismatch_0() {
    mismatch::<0>();
}

#[kani::proof]
#[kani::unwind(4)]
fn c09_merge_mismatch_1() {
    mismatch::<1>();
}

/// N >= 2: from_radials inspects nothing but the equality of *adjacent* elevation numbers, and CBMC
/// cannot carry a symbolic branch over Vec<Radial> state (see DESIGN.md C09).  So for N = 2..=4 every
/// adjacent-equality pattern (2^(N-1) of them) is run with concrete labels drawn from a table; the
/// tables put 0 and 255 first/middle/last and include non-adjacent repeats (SAILS-like 1,2,1,3).
fn group_concrete<const N: usize>(el: [u8; N]) {
    let mut v = Vec::with_capacity(N);
    let mut i = 0;
    while i < N {
        v.push(mk(i as i64, i as u16, el[i]));
        i += 1;
    }
    let sweeps = Sweep::from_radials(v);
    check_grouping(&sweeps, &el[..]);
    core::mem::forget(sweeps);
}

fn group_patterns<const N: usize>(table: [u8; 4]) {
    let mut p = 0usize;
    while p < (1 << (N - 1)) {
        let mut el = [0u8; N];
        let mut label = 0usize;
        el[0] = table[0];
        let mut i = 1;
        while i < N {
            if (p >> (i - 1)) & 1 == 1 {
                label += 1;
            }
            el[i] = table[label];
            i += 1;
        }
        group_concrete::<N>(el);
        p += 1;
    }
    wit!(p == (1 << (N - 1)), "witness: every pattern was run");
}

macro_rules! pattern_harness {
    ($name:ident, $n:expr, $t:expr) => {
        #[kani::proof]
        #[kani::unwind(10)]
        fn $name() {
            group_patterns::<$n>($t);
        }
    };
}
pattern_harness!(c09_patterns_n2_t1, 2, [0, 1, 2, 3]);
pattern_harness!(c09_patterns_n2_t2, 2, [255, 0, 255, 0]);
pattern_harness!(c09_patterns_n3_t1, 3, [0, 1, 2, 3]);
pattern_harness!(c09_patterns_n3_t2, 3, [255, 0, 255, 0]);
pattern_harness!(c09_patterns_n3_t3, 3, [1, 2, 1, 3]);
pattern_harness!(c09_patterns_n4_t1, 4, [0, 1, 2, 3]);
pattern_harness!(c09_patterns_n4_t2, 4, [255, 0, 255, 0]);
pattern_harness!(c09_patterns_n4_t3, 4, [1, 2, 1, 3]);

/// Stability beyond std's small-slice insertion sort (> 20 elements): two concrete 12-radial sweeps
/// whose azimuth numbers collide pairwise; ties must come out first-then-second.  Concrete input:
/// the solver merely executes it (the symbolic merge harnesses stop at 3 + 2 radials).
#[kani::proof]
#[kani::unwind(26)]
fn c09_merge_stable_12_12_concrete() {
    let e = 3u8;
    let mut v1 = Vec::with_capacity(12);
    let mut v2 = Vec::with_capacity(12);
    let mut i = 0u16;
    while i < 12 {
        v1.push(mk(i as i64, 1 + i, e)); // azimuth numbers 1..=12
        v2.push(mk((12 + i) as i64, 1 + (i + 7) % 12, e)); // the same numbers, rotated by 7
        i += 1;
    }
    let m = match Sweep::new(e, v1).merge(Sweep::new(e, v2)) {
        Ok(m) => m,
        Err(e) => {
            core::mem::forget(e);
            panic!("C09: merging equal elevation numbers failed")
        }
    };
    let rs = m.radials();
    assert!(rs.len() == 24, "C09: merge lost or duplicated radials");
    let mut k = 0;
    while k < 24 {
        // expected: azimuth 1 (first, second), azimuth 2 (first, second), ...
        let az = 1 + (k / 2) as u16;
        assert!(rs[k].azimuth_number() == az, "C09: merge result not ordered by azimuth number");
        let from_second = rs[k].collection_timestamp() >= 12;
        assert!(from_second == (k % 2 == 1), "C09: ties not in first-then-second order");
        k += 1;
    }
    wit!(rs.len() == 24);
    core::mem::forget(m);
}

/// Smallest input beyond std's small-slice threshold (21 elements: 11 + 10 radials, azimuth numbers
/// colliding pairwise): ties must come out first-then-second.  Concrete input, as above.
#[kani::proof]
#[kani::unwind(24)]
fn c09_merge_stable_11_10_concrete() {
    let e = 3u8;
    let mut v1 = Vec::with_capacity(11);
    let mut v2 = Vec::with_capacity(10);
    let mut i = 0u16;
    while i < 11 {
        v1.push(mk(i as i64, 1 + i, e)); // azimuth numbers 1..=11
        i += 1;
    }
    let mut i = 0u16;
    while i < 10 {
        v2.push(mk((100 + i) as i64, 1 + (i + 4) % 10, e)); // numbers 1..=10, rotated by 4
        i += 1;
    }
    let m = match Sweep::new(e, v1).merge(Sweep::new(e, v2)) {
        Ok(m) => m,
        Err(e) => {
            core::mem::forget(e);
            panic!("C09: merging equal elevation numbers failed")
        }
    };
    let rs = m.radials();
    assert!(rs.len() == 21, "C09: merge lost or duplicated radials");
    let mut k = 0;
    while k < 21 {
        // expected: azimuth 1 (first, second), ..., azimuth 10 (first, second), azimuth 11 (first)
        let az = 1 + (k / 2) as u16;
        assert!(rs[k].azimuth_number() == az, "C09: merge result not ordered by azimuth number");
        let from_second = rs[k].collection_timestamp() >= 100;
        assert!(from_second == (k % 2 == 1), "C09: ties not in first-then-second order");
        k += 1;
    }
    wit!(rs.len() == 21);
    core::mem::forget(m);
}
