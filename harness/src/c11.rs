//! C11 — Volume Coverage Pattern (type 5) message: layout, scaling and bit fields.
use nexrad_decode::messages::volume_coverage_pattern::{
    decode_volume_coverage_pattern, ChannelConfiguration, ElevationDataBlock, Header, PatternType,
    PulseWidth, WaveformType,
};

fn be16(b: &[u8], o: usize) -> u16 {
    u16::from_be_bytes([b[o], b[o + 1]])
}
fn be32(b: &[u8], o: usize) -> u32 {
    u32::from_be_bytes([b[o], b[o + 1], b[o + 2], b[o + 3]])
}

/// ICD Table XI: 11 header halfwords.
fn check_header(h: &Header, b: &[u8]) {
    assert!(h.message_size == be16(b, 0), "C11: message_size");
    assert!(h.pattern_type == be16(b, 2), "C11: pattern_type");
    assert!(h.pattern_number == be16(b, 4), "C11: pattern_number");
    assert!(h.number_of_elevation_cuts == be16(b, 6), "C11: number_of_elevation_cuts");
    assert!(h.version == b[8], "C11: version");
    assert!(h.clutter_map_group_number == b[9], "C11: clutter_map_group_number");
    assert!(h.doppler_velocity_resolution == b[10], "C11: doppler_velocity_resolution");
    assert!(h.pulse_width == b[11], "C11: pulse_width");
    assert!(h.reserved_1 == be32(b, 12), "C11: reserved_1");
    assert!(h.vcp_sequencing == be16(b, 16), "C11: vcp_sequencing");
    assert!(h.vcp_supplemental_data == be16(b, 18), "C11: vcp_supplemental_data");
    assert!(h.reserved_2 == be16(b, 20), "C11: reserved_2");
}

/// ICD Table XI elevation cut: 23 halfwords at offset o.
fn check_cut(e: &ElevationDataBlock, b: &[u8], o: usize) {
    assert!(e.elevation_angle == be16(b, o), "C11: cut.elevation_angle");
    assert!(e.channel_configuration == b[o + 2], "C11: cut.channel_configuration");
    assert!(e.waveform_type == b[o + 3], "C11: cut.waveform_type");
    assert!(e.super_resolution_control == b[o + 4], "C11: cut.super_resolution_control");
    assert!(e.surveillance_prf_number == b[o + 5], "C11: cut.surveillance_prf_number");
    assert!(e.surveillance_prf_pulse_count_radial == be16(b, o + 6), "C11: cut.surveillance_prf_pulse_count_radial");
    assert!(e.azimuth_rate == be16(b, o + 8), "C11: cut.azimuth_rate");
    assert!(e.reflectivity_threshold == be16(b, o + 10) as i16, "C11: cut.reflectivity_threshold");
    assert!(e.velocity_threshold == be16(b, o + 12) as i16, "C11: cut.velocity_threshold");
    assert!(e.spectrum_width_threshold == be16(b, o + 14) as i16, "C11: cut.spectrum_width_threshold");
    assert!(e.differential_reflectivity_threshold == be16(b, o + 16) as i16, "C11: cut.differential_reflectivity_threshold");
    assert!(e.differential_phase_threshold == be16(b, o + 18) as i16, "C11: cut.differential_phase_threshold");
    assert!(e.correlation_coefficient_threshold == be16(b, o + 20) as i16, "C11: cut.correlation_coefficient_threshold");
    assert!(e.sector_1_edge_angle == be16(b, o + 22), "C11: cut.sector_1_edge_angle");
    assert!(e.sector_1_doppler_prf_number == be16(b, o + 24), "C11: cut.sector_1_doppler_prf_number");
    assert!(e.sector_1_doppler_prf_pulse_count_radial == be16(b, o + 26), "C11: cut.sector_1_doppler_prf_pulse_count_radial");
    assert!(e.supplemental_data == be16(b, o + 28), "C11: cut.supplemental_data");
    assert!(e.sector_2_edge_angle == be16(b, o + 30), "C11: cut.sector_2_edge_angle");
    assert!(e.sector_2_doppler_prf_number == be16(b, o + 32), "C11: cut.sector_2_doppler_prf_number");
    assert!(e.sector_2_doppler_prf_pulse_count_radial == be16(b, o + 34), "C11: cut.sector_2_doppler_prf_pulse_count_radial");
    assert!(e.ebc_angle == be16(b, o + 36), "C11: cut.ebc_angle");
    assert!(e.sector_3_edge_angle == be16(b, o + 38), "C11: cut.sector_3_edge_angle");
    assert!(e.sector_3_doppler_prf_number == be16(b, o + 40), "C11: cut.sector_3_doppler_prf_number");
    assert!(e.sector_3_doppler_prf_pulse_count_radial == be16(b, o + 42), "C11: cut.sector_3_doppler_prf_pulse_count_radial");
    assert!(e.reserved == be16(b, o + 44), "C11: cut.reserved");
}

fn layout<const K: usize, const L: usize>() {
    let mut b: [u8; L] = kani::any();
    b[6] = 0;
    b[7] = K as u8;
    let m = match decode_volume_coverage_pattern(&mut &b[..]) {
        Ok(m) => m,
        Err(e) => {
            core::mem::forget(e);
            panic!("C11: a well-formed VCP message failed to decode")
        }
    };
    check_header(&m.header, &b);
    assert!(m.elevations.len() == K, "C11: number of cut blocks != declared count");
    let mut i = 0;
    while i < K {
        check_cut(&m.elevations[i], &b, 22 + 46 * i);
        i += 1;
    }
    wit!(m.header.pattern_number == 212);
    core::mem::forget(m);
}

macro_rules! layout_harness {
    ($name:ident, $k:expr, $u:expr) => {
        #[kani::proof]
        #[kani::unwind($u)]
        #[kani::stub(alloc::fmt::format, crate::stubs::fmt_format)]
        fn $name() {
            layout::<$k, { 22 + 46 * $k }>();
        }
    };
}
layout_harness!(c11_layout_k0, 0, 2);
layout_harness!(c11_layout_k1, 1, 3);
layout_harness!(c11_layout_k2, 2, 4);
layout_harness!(c11_layout_k3, 3, 5);
layout_harness!(c11_layout_k5, 5, 7);

/// A declared cut count that does not fit the available bytes is an error (frame of 2 cuts).
#[kani::proof]
#[kani::unwind(5)]
#[kani::stub(alloc::fmt::format, crate::stubs::fmt_format)]
fn c11_count_does_not_fit() {
    let b: [u8; 22 + 46 * 2] = kani::any();
    let cuts = be16(&b, 6);
    let r = decode_volume_coverage_pattern(&mut &b[..]);
    assert!(r.is_ok() == (cuts <= 2), "C11: declared cut count beyond the frame must be an error");
    wit!(cuts == 65535 && r.is_err());
    wit!(cuts == 2 && r.is_ok());
    core::mem::forget(r);
}

fn any_cut() -> ElevationDataBlock {
    ElevationDataBlock {
        elevation_angle: kani::any(),
        channel_configuration: kani::any(),
        waveform_type: kani::any(),
        super_resolution_control: kani::any(),
        surveillance_prf_number: kani::any(),
        surveillance_prf_pulse_count_radial: kani::any(),
        azimuth_rate: kani::any(),
        reflectivity_threshold: kani::any(),
        velocity_threshold: kani::any(),
        spectrum_width_threshold: kani::any(),
        differential_reflectivity_threshold: kani::any(),
        differential_phase_threshold: kani::any(),
        correlation_coefficient_threshold: kani::any(),
        sector_1_edge_angle: kani::any(),
        sector_1_doppler_prf_number: kani::any(),
        sector_1_doppler_prf_pulse_count_radial: kani::any(),
        supplemental_data: kani::any(),
        sector_2_edge_angle: kani::any(),
        sector_2_doppler_prf_number: kani::any(),
        sector_2_doppler_prf_pulse_count_radial: kani::any(),
        ebc_angle: kani::any(),
        sector_3_edge_angle: kani::any(),
        sector_3_doppler_prf_number: kani::any(),
        sector_3_doppler_prf_pulse_count_radial: kani::any(),
        reserved: kani::any(),
    }
}

/// Flag and sub-field accessors of a cut read exactly their documented bits (all 2^16 / 2^8 raw).
#[kani::proof]
fn c11_cut_bits() {
    let e = any_cut();
    let s = e.super_resolution_control;
    assert!(e.super_resolution_control_half_degree_azimuth() == (s & 1 != 0));
    assert!(e.super_resolution_control_quarter_km_reflectivity() == (s >> 1 & 1 != 0));
    assert!(e.super_resolution_control_doppler_to_300km() == (s >> 2 & 1 != 0));
    assert!(e.super_resolution_control_dual_polarization_to_300km() == (s >> 3 & 1 != 0));
    let d = e.supplemental_data;
    assert!(e.supplemental_data_sails_cut() == (d & 1 != 0));
    assert!(e.supplemental_data_sails_sequence_number() == (d >> 1 & 7) as u8);
    assert!(e.supplemental_data_mrle_cut() == (d >> 4 & 1 != 0));
    assert!(e.supplemental_data_mrle_sequence_number() == (d >> 5 & 7) as u8);
    assert!(e.supplemental_data_mpda_cut() == (d >> 9 & 1 != 0));
    assert!(e.supplemental_data_base_tilt_cut() == (d >> 10 & 1 != 0));
    // coded bytes
    let c = e.channel_configuration;
    assert!(e.channel_configuration() == match c {
        0 => ChannelConfiguration::ConstantPhase,
        1 => ChannelConfiguration::RandomPhase,
        2 => ChannelConfiguration::SZ2Phase,
        _ => ChannelConfiguration::UnknownPhase,
    });
    let w = e.waveform_type;
    assert!(e.waveform_type() == match w {
        1 => WaveformType::CS,
        2 => WaveformType::CDW,
        3 => WaveformType::CDWO,
        4 => WaveformType::B,
        5 => WaveformType::SPP,
        _ => WaveformType::Unknown,
    });
    wit!(d == 0x0400 && s == 8);
}

/// Thresholds are raw/8 dB for every signed 16-bit raw value.
#[kani::proof]
fn c11_cut_thresholds() {
    let e = any_cut();
    assert!(e.reflectivity_threshold() == e.reflectivity_threshold as f64 / 8.0);
    assert!(e.velocity_threshold() == e.velocity_threshold as f64 / 8.0);
    assert!(e.spectrum_width_threshold() == e.spectrum_width_threshold as f64 / 8.0);
    assert!(e.differential_reflectivity_threshold() == e.differential_reflectivity_threshold as f64 / 8.0);
    assert!(e.differential_phase_threshold() == e.differential_phase_threshold as f64 / 8.0);
    assert!(e.correlation_coefficient_threshold() == e.correlation_coefficient_threshold as f64 / 8.0);
    wit!(e.reflectivity_threshold == -9 && e.reflectivity_threshold() == -1.125);
}

/// Angles are (raw >> 3) x 180/4096 degrees (both factors exact binary fractions, so == is exact).
#[kani::proof]
#[kani::unwind(15)]
#[kani::stub(f64::powf, crate::stubs::powf_pow2)]
fn c11_cut_angles() {
    let e = any_cut();
    let f = |raw: u16| (raw >> 3) as f64 * (180.0 / 4096.0);
    assert!(e.elevation_angle_degrees() == f(e.elevation_angle), "C11: elevation angle scaling");
    assert!(e.sector_1_edge_angle_degrees() == f(e.sector_1_edge_angle), "C11: sector 1 edge angle");
    assert!(e.sector_2_edge_angle_degrees() == f(e.sector_2_edge_angle), "C11: sector 2 edge angle");
    assert!(e.sector_3_edge_angle_degrees() == f(e.sector_3_edge_angle), "C11: sector 3 edge angle");
    assert!(e.ebc_angle_degrees() == f(e.ebc_angle), "C11: EBC angle");
    wit!(e.elevation_angle == 0x8000 && e.elevation_angle_degrees() == 180.0);
    wit!(e.elevation_angle == 0xFFFF);
}

/// Azimuth rate is ((raw >> 3) & 0xFFF) x 22.5/2048 deg/s, negated when bit 15 is set.
#[kani::proof]
#[kani::unwind(15)]
#[kani::stub(f64::powf, crate::stubs::powf_pow2)]
fn c11_cut_azimuth_rate() {
    let e = any_cut();
    let raw = e.azimuth_rate;
    let mag = ((raw >> 3) & 0xFFF) as f64 * (22.5 / 2048.0);
    let want = if raw & 0x8000 != 0 { -mag } else { mag };
    let got = e.azimuth_rate_degrees_per_second();
    assert!(got == want, "C11: azimuth rate scaling/sign");
    // -0.0 == 0.0 under ==; the sign of zero is not part of the ICD encoding
    wit!(raw == 0xC000 && got == -22.5);
    wit!(raw == 0x0008);
}

/// Header flag and sub-field accessors read exactly their documented bits.
#[kani::proof]
fn c11_header_bits() {
    let h = Header {
        message_size: kani::any(),
        pattern_type: kani::any(),
        pattern_number: kani::any(),
        number_of_elevation_cuts: kani::any(),
        version: kani::any(),
        clutter_map_group_number: kani::any(),
        doppler_velocity_resolution: kani::any(),
        pulse_width: kani::any(),
        reserved_1: kani::any(),
        vcp_sequencing: kani::any(),
        vcp_supplemental_data: kani::any(),
        reserved_2: kani::any(),
    };
    let q = h.vcp_sequencing;
    assert!(h.vcp_sequencing_number_of_elevations() == (q & 0x1F) as u8);
    assert!(h.vcp_sequencing_maximum_sails_cuts() == (q >> 5 & 3) as u8);
    assert!(h.vcp_sequencing_sequence_active() == (q >> 13 & 1 != 0));
    assert!(h.vcp_sequencing_truncated_vcp() == (q >> 14 & 1 != 0));
    let d = h.vcp_supplemental_data;
    assert!(h.vcp_supplemental_data_sails_vcp() == (d & 1 != 0));
    assert!(h.vcp_supplemental_data_number_sails_cuts() == (d >> 1 & 7) as u8);
    assert!(h.vcp_supplemental_data_mrle_vcp() == (d >> 4 & 1 != 0));
    assert!(h.vcp_supplemental_data_number_mrle_cuts() == (d >> 5 & 7) as u8);
    assert!(h.vcp_supplemental_data_mpda_vcp() == (d >> 11 & 1 != 0));
    assert!(h.vcp_supplemental_data_base_tilt_vcp() == (d >> 12 & 1 != 0));
    assert!(h.vcp_supplemental_data_base_tilts() == (d >> 13 & 7) as u8);
    assert!(h.pattern_type() == if h.pattern_type == 2 { PatternType::Constant } else { PatternType::Unknown });
    assert!(h.pulse_width() == match h.pulse_width {
        2 => PulseWidth::Short,
        4 => PulseWidth::Long,
        _ => PulseWidth::Unknown,
    });
    assert!(h.doppler_velocity_resolution_meters_per_second() == match h.doppler_velocity_resolution {
        2 => Some(0.5),
        4 => Some(1.0),
        _ => None,
    });
    wit!(q == 0x6000 && d == 0xF800);
}
