//! C07 — radial model mapping and gate-value conversion are exact.
use nexrad_decode::messages::digital_radar_data::{
    DataBlockId, GenericDataBlock, GenericDataBlockHeader, Header, Message, ScaledMomentValue,
};
use nexrad_model::data::{MomentValue, Radial, RadialStatus};

fn any_header() -> Header {
    Header {
        radar_identifier: kani::any(),
        time: kani::any(),
        date: kani::any(),
        azimuth_number: kani::any(),
        azimuth_angle: kani::any(),
        compression_indicator: kani::any(),
        spare: kani::any(),
        radial_length: kani::any(),
        azimuth_resolution_spacing: kani::any(),
        radial_status: kani::any(),
        elevation_number: kani::any(),
        cut_sector_number: kani::any(),
        elevation_angle: kani::any(),
        radial_spot_blanking_status: kani::any(),
        azimuth_indexing_mode: kani::any(),
        data_block_count: kani::any(),
    }
}

fn block(gates: u16, word: u8, scale: f32, offset: f32, data: Vec<u8>) -> GenericDataBlock {
    GenericDataBlock {
        header: GenericDataBlockHeader {
            data_block_id: DataBlockId { data_block_type: b'D', data_name: *b"REF" },
            reserved: 0,
            number_of_data_moment_gates: gates,
            data_moment_range: kani::any(),
            data_moment_range_sample_interval: kani::any(),
            tover: kani::any(),
            snr_threshold: kani::any(),
            control_flags: kani::any(),
            data_word_size: word,
            scale,
            offset,
        },
        encoded_data: data,
    }
}

fn msg(h: Header, m: [Option<GenericDataBlock>; 7]) -> Message {
    let [a, b, c, d, e, f, g] = m;
    Message {
        header: h,
        volume_data_block: None,
        elevation_data_block: None,
        radial_data_block: None,
        reflectivity_data_block: a,
        velocity_data_block: b,
        spectrum_width_data_block: c,
        differential_reflectivity_data_block: d,
        differential_phase_data_block: e,
        correlation_coefficient_data_block: f,
        specific_diff_phase_data_block: g,
    }
}

fn status_of(code: u8) -> RadialStatus {
    match code {
        0 => RadialStatus::ElevationStart,
        1 => RadialStatus::IntermediateRadialData,
        2 => RadialStatus::ElevationEnd,
        3 => RadialStatus::VolumeScanStart,
        4 => RadialStatus::VolumeScanEnd,
        _ => RadialStatus::ElevationStartVCPFinal,
    }
}

/// Header mapping, all headers (date/time concrete, see c07_collection_time), no moments: numbers,
/// angles (bitwise), spacing 0.5 x code, status one-to-one on the six documented codes,
/// borrowing == consuming conversion.
#[kani::proof]
#[kani::stub(alloc::fmt::format, crate::stubs::fmt_format)]
fn c07_header_mapping() {
    let mut h = any_header();
    h.date = 19_000;
    h.time = 12_345_678;
    kani::assume(!h.azimuth_angle.is_nan() && !h.elevation_angle.is_nan());
    let (azn, aza, sp, st, eln, ela) = (
        h.azimuth_number, h.azimuth_angle, h.azimuth_resolution_spacing,
        h.radial_status, h.elevation_number, h.elevation_angle,
    );
    let m = msg(h, [None, None, None, None, None, None, None]);
    let r = match m.radial() {
        Ok(r) => r,
        Err(e) => {
            core::mem::forget(e);
            panic!("C07: radial() failed on an in-range header")
        }
    };
    assert!(r.azimuth_number() == azn, "C07: azimuth number");
    assert!(r.elevation_number() == eln, "C07: elevation number");
    assert!(r.azimuth_angle_degrees().to_bits() == aza.to_bits(), "C07: azimuth angle");
    assert!(r.elevation_angle_degrees().to_bits() == ela.to_bits(), "C07: elevation angle");
    assert!(r.azimuth_spacing_degrees() == 0.5 * sp as f32, "C07: azimuth spacing = 0.5 x code");
    if st <= 5 {
        assert!(r.radial_status() == status_of(st), "C07: radial status mapping");
    }
    assert!(r.collection_timestamp() == 18_999i64 * 86_400_000 + 12_345_678, "C07: collection time in epoch ms");
    assert!(r.reflectivity().is_none() && r.velocity().is_none() && r.spectrum_width().is_none());
    assert!(r.differential_reflectivity().is_none() && r.differential_phase().is_none());
    assert!(r.correlation_coefficient().is_none() && r.specific_differential_phase().is_none());
    let r2 = match m.into_radial() {
        Ok(r) => r,
        Err(e) => {
            core::mem::forget(e);
            panic!("C07: into_radial() failed")
        }
    };
    assert!(r == r2, "C07: borrowing and consuming conversions differ");
    wit!(st == 4 && sp == 2 && azn == 720);
    wit!(st == 5);
    core::mem::forget((r, r2));
}

/// Collection time = the header's date-time in epoch milliseconds.  Two lemmas (a query with
/// date AND time symbolic through timestamp_millis() does not finish: > 25 min): every date at
/// midnight, and every time of day on a fixed date.  (That date_time() itself is the exact instant for
/// every (date, time) pair is C08's c08_drd_header_exact.)
fn collection_time(date: u16, time: u32) {
    let mut h = any_header();
    h.azimuth_angle = 10.5;
    h.elevation_angle = 0.5;
    h.azimuth_resolution_spacing = 1;
    h.radial_status = 1;
    h.date = date;
    h.time = time;
    let m = msg(h, [None, None, None, None, None, None, None]);
    let want = (date as i64 - 1) * 86_400_000 + time as i64;
    match m.radial() {
        Ok(r) => {
            assert!(r.collection_timestamp() == want, "C07: radial() collection time in epoch ms");
            core::mem::forget(r);
        }
        Err(e) => {
            core::mem::forget(e);
            panic!("C07: radial() failed on an in-range header")
        }
    }
    // into_radial() is tied to radial() by `r == r2` in c07_header_mapping / c07_moment_routing_*
    core::mem::forget(m);
}

#[kani::proof]
#[kani::stub(alloc::fmt::format, crate::stubs::fmt_format)]
fn c07_collection_time_dates() {
    let date: u16 = kani::any();
    kani::assume(date >= 1);
    collection_time(date, 0);
    wit!(date == 65535);
}

#[kani::proof]
#[kani::stub(alloc::fmt::format, crate::stubs::fmt_format)]
fn c07_collection_time_times() {
    let time: u32 = kani::any();
    kani::assume(time < 86_400_000);
    collection_time(19_000, time);
    wit!(time == 86_399_999);
}

/// Out-of-range time of day (>= 24 h, every such u32): the property ties the radial's collection time
/// to the header's own date-time accessor for EVERY decoded message, so the radial must report whatever
/// `Header::date_time()` reports (chrono wraps the time of day and keeps the date), not a separately
/// computed sum.
#[kani::proof]
#[kani::stub(alloc::fmt::format, crate::stubs::fmt_format)]
fn c07_collection_time_beyond_24h() {
    let time: u32 = kani::any();
    kani::assume(time >= 86_400_000);
    collection_time_beyond(time);
    wit!(time == u32::MAX);
    wit!(time == 86_400_000);
}

/// Quick-tier window of the same statement: the 65,536 milliseconds right after 24 h.
#[kani::proof]
#[kani::stub(alloc::fmt::format, crate::stubs::fmt_format)]
fn c07_collection_time_beyond_24h_window() {
    let x: u16 = kani::any();
    let time = 86_400_000u32 + x as u32;
    collection_time_beyond(time);
    wit!(x == 0);
    wit!(x == 65535);
}

fn collection_time_beyond(time: u32) {
    let mut h = any_header();
    h.azimuth_angle = 10.5;
    h.elevation_angle = 0.5;
    h.azimuth_resolution_spacing = 1;
    h.radial_status = 1;
    h.date = 19_000;
    h.time = time;
    let want = match h.date_time() {
        Some(t) => t.timestamp_millis(),
        None => panic!("C07: header date_time() is none for an in-range date"),
    };
    assert!(want == (19_000i64 - 1) * 86_400_000 + (time % 86_400_000) as i64, "C07: header date_time() for a time of day beyond 24 h");
    let m = msg(h, [None, None, None, None, None, None, None]);
    match m.radial() {
        Ok(r) => {
            assert!(r.collection_timestamp() == want, "C07: radial() collection time differs from the header's date-time");
            core::mem::forget(r);
        }
        Err(e) => {
            core::mem::forget(e);
            panic!("C07: radial() failed although the header has a date-time")
        }
    }
    core::mem::forget(m);
}

/// Moment routing for a CONCRETE presence pattern (a symbolic subset makes seven heap objects
/// conditional at once: 16 GB): each present moment carries its own raw byte, scale and offset so
/// that cross-wiring is visible; the radial reports exactly those present, each with its own value;
/// both conversions agree.  Other header fields symbolic.
fn routing(present: [bool; 7]) {
    let mut h = any_header();
    h.date = 2;
    h.time = 5;
    h.azimuth_angle = 1.0;
    h.elevation_angle = 2.0;
    let mk = |k: usize| -> Option<GenericDataBlock> {
        if present[k] {
            Some(block(1, 8, (k + 1) as f32, (10 * (k + 1)) as f32, vec![(20 + k) as u8]))
        } else {
            None
        }
    };
    let m = msg(h, [mk(0), mk(1), mk(2), mk(3), mk(4), mk(5), mk(6)]);
    let r = match m.radial() {
        Ok(r) => r,
        Err(e) => {
            core::mem::forget(e);
            panic!("C07: radial() failed")
        }
    };
    let check = |r: &Radial, what: &str| {
        let got = [
            r.reflectivity(), r.velocity(), r.spectrum_width(), r.differential_reflectivity(),
            r.differential_phase(), r.correlation_coefficient(), r.specific_differential_phase(),
        ];
        let mut k = 0;
        while k < 7 {
            assert!(got[k].is_some() == present[k], "C07: absent moment reported present or vice versa");
            if let Some(md) = got[k] {
                let v = md.values();
                assert!(v.len() == 1, "C07: one value per gate");
                let want = ((20 + k) as f32 - (10 * (k + 1)) as f32) / (k + 1) as f32;
                assert!(v[0] == MomentValue::Value(want), "C07: moment delivered under the wrong product");
                core::mem::forget(v);
            }
            k += 1;
        }
        let _ = what;
    };
    check(&r, "radial");
    let r2 = match m.into_radial() {
        Ok(r) => r,
        Err(e) => {
            core::mem::forget(e);
            panic!("C07: into_radial() failed")
        }
    };
    check(&r2, "into_radial");
    assert!(r == r2, "C07: borrowing and consuming conversions differ");
    core::mem::forget((r, r2));
}

/// A present moment with ZERO gates stays present (with no values) in both conversions, next to a
/// one-gate moment; word sizes 8 and 16; other header fields symbolic.
#[kani::proof]
#[kani::unwind(9)]
#[kani::stub(alloc::fmt::format, crate::stubs::fmt_format)]
fn c07_zero_gate_moment_stays_present() {
    let mut h = any_header();
    h.date = 2;
    h.time = 5;
    h.azimuth_angle = 1.0;
    h.elevation_angle = 2.0;
    let raw: u8 = kani::any();
    let m = msg(h, [Some(block(0, 8, 2.0, 66.0, Vec::new())), Some(block(1, 8, 2.0, 129.0, vec![raw])), None, None, Some(block(0, 16, 2.8361, 2.0, Vec::new())), None, None]);
    let r = match m.radial() {
        Ok(r) => r,
        Err(e) => {
            core::mem::forget(e);
            panic!("C07: radial() failed")
        }
    };
    let r2 = match m.into_radial() {
        Ok(r) => r,
        Err(e) => {
            core::mem::forget(e);
            panic!("C07: into_radial() failed")
        }
    };
    let both = [&r, &r2];
    let mut i = 0;
    while i < 2 {
        let x = both[i];
        match (x.reflectivity(), x.velocity(), x.differential_phase()) {
            (Some(a), Some(b), Some(c)) => {
                let (va, vb, vc) = (a.values(), b.values(), c.values());
                assert!(va.len() == 0 && vb.len() == 1 && vc.len() == 0, "C07: one value per gate (zero gates -> zero values)");
                core::mem::forget((va, vb, vc));
            }
            _ => panic!("C07: a present moment (zero gates) reported absent"),
        }
        assert!(x.spectrum_width().is_none() && x.correlation_coefficient().is_none(), "C07: absent moment reported present");
        i += 1;
    }
    assert!(r == r2, "C07: borrowing and consuming conversions differ");
    wit!(raw == 0);
    core::mem::forget((r, r2));
}

#[kani::proof]
#[kani::unwind(9)]
#[kani::stub(alloc::fmt::format, crate::stubs::fmt_format)]
fn c07_moment_routing_all() {
    routing([true; 7]);
    wit!(true);
}

#[kani::proof]
#[kani::unwind(9)]
#[kani::stub(alloc::fmt::format, crate::stubs::fmt_format)]
fn c07_moment_routing_single() {
    let mut k = 0;
    while k < 7 {
        let mut p = [false; 7];
        p[k] = true;
        routing(p);
        k += 1;
    }
    routing([false; 7]);
    wit!(k == 7);
}

#[kani::proof]
#[kani::unwind(9)]
#[kani::stub(alloc::fmt::format, crate::stubs::fmt_format)]
fn c07_moment_routing_dualpol_only() {
    routing([false, false, false, true, true, true, false]);
    routing([true, true, true, false, false, false, true]);
    wit!(true);
}

/// Sentinels and the raw-value rule at both levels, all 256 raw bytes, scale/offset from the
/// listed set (the seven ICD moments' pairs, scale 0, +-1, a negative and a sub-unit scale).
fn listed_scale_offset(i: u8) -> (f32, f32) {
    match i {
        0 => (2.0, 66.0),       // REF
        1 => (2.0, 129.0),      // VEL (0.5 m/s)
        2 => (1.0, 129.0),      // VEL (1 m/s)
        3 => (16.0, 128.0),     // ZDR
        4 => (2.8361, 2.0),     // PHI
        5 => (300.0, -60.5),    // RHO
        6 => (0.0, 0.0),        // scale 0: raw value itself
        7 => (-1.0, 0.0),
        8 => (0.125, 3.5),
        _ => (1.0, 0.0),
    }
}

#[kani::proof]
#[kani::unwind(4)]
#[kani::stub(alloc::fmt::format, crate::stubs::fmt_format)]
fn c07_values_levels_agree() {
    let i: u8 = kani::any();
    kani::assume(i <= 9);
    let (scale, offset) = listed_scale_offset(i);
    let raw: u8 = kani::any();
    let b = block(1, 8, scale, offset, vec![raw]);
    let dv = b.decoded_values();
    let md = b.moment_data();
    let mv = md.values();
    assert!(dv.len() == 1 && mv.len() == 1, "C07: one value per gate");
    // decode level == model level
    match (dv[0], mv[0]) {
        (ScaledMomentValue::BelowThreshold, MomentValue::BelowThreshold) => {}
        (ScaledMomentValue::RangeFolded, MomentValue::RangeFolded) => {}
        (ScaledMomentValue::Value(x), MomentValue::Value(y)) => assert!(x.to_bits() == y.to_bits(), "C07: levels disagree on a value"),
        _ => panic!("C07: decode level and model level disagree"),
    }
    // the rule itself (scale == 0 with raw <= 1 is left to the agreement check above: DESIGN section 5)
    if scale != 0.0 {
        match raw {
            0 => assert!(mv[0] == MomentValue::BelowThreshold, "C07: raw 0 is below-threshold"),
            1 => assert!(mv[0] == MomentValue::RangeFolded, "C07: raw 1 is range-folded"),
            _ => assert!(mv[0] == MomentValue::Value((raw as f32 - offset) / scale), "C07: (raw - offset) / scale"),
        }
    } else if raw >= 2 {
        assert!(mv[0] == MomentValue::Value(raw as f32), "C07: scale 0 yields the raw value");
    }
    wit!(i == 5 && raw == 255);
    wit!(i == 6 && raw == 7);
    core::mem::forget((dv, mv, md, b));
}

/// One value per gate (gates 0..=2) at both levels for the given word size; a 16-bit gate is the
/// big-endian pair of its two bytes.  One harness per word size: a symbolic word size on top of a
/// symbolic gate count exhausts CBMC (12 GB).
fn gate_count<const WORD: u8, const SYM: bool>() {
    // a symbolic gate count makes collect() allocate a symbolic capacity: fine for the 16-bit path,
    // out of memory (12 GB) for the 8-bit path, which therefore runs with exactly 2 gates
    let gates: u16 = if SYM { kani::any() } else { 2 };
    kani::assume(gates <= 2);
    let d: [u8; 4] = kani::any();
    let n = gates as usize * (WORD as usize / 8);
    let b = block(gates, WORD, 2.0, 66.0, d[..n].to_vec());
    let dv = b.decoded_values();
    let md = b.moment_data();
    let mv = md.values();
    assert!(dv.len() == gates as usize && mv.len() == gates as usize, "C07: exactly one value per gate");
    let mut g = 0;
    while g < gates as usize {
        let raw: u16 = if WORD == 16 { u16::from_be_bytes([d[2 * g], d[2 * g + 1]]) } else { d[g] as u16 };
        // which raw word each gate was cut from (the value formula itself: z::c07_value_formula)
        match (raw, mv[g], dv[g]) {
            (0, MomentValue::BelowThreshold, ScaledMomentValue::BelowThreshold) => {}
            (1, MomentValue::RangeFolded, ScaledMomentValue::RangeFolded) => {}
            (r, MomentValue::Value(x), ScaledMomentValue::Value(y)) => {
                assert!(r >= 2, "C07: sentinel raw value decoded as a number");
                // scale 2, offset 66: (raw - 66) / 2 is exact in f32 for every 16-bit raw
                assert!(x == (r as f32 - 66.0) * 0.5 && y == x, "C07: gate value (word size / byte order)");
            }
            _ => panic!("C07: gate decoded to the wrong kind of value"),
        }
        g += 1;
    }
    wit!(gates == 2);
    wit!(!SYM || gates == 0);
    core::mem::forget((dv, mv, md, b));
}

#[kani::proof]
#[kani::unwind(6)]
#[kani::stub(alloc::fmt::format, crate::stubs::fmt_format)]
fn c07_gate_count_word8() {
    gate_count::<8, false>();
}

#[kani::proof]
#[kani::unwind(6)]
#[kani::stub(alloc::fmt::format, crate::stubs::fmt_format)]
fn c07_gate_count_word16() {
    gate_count::<16, true>();
}

/// The consuming conversion keeps the word size too: into_moment_data of a 16-bit block.
#[kani::proof]
#[kani::unwind(6)]
#[kani::stub(alloc::fmt::format, crate::stubs::fmt_format)]
fn c07_gate_count_word16_consuming() {
    let d: [u8; 4] = kani::any();
    let b = block(2, 16, 2.8361, 2.0, d.to_vec());
    let md = b.into_moment_data();
    let mv = md.values();
    assert!(mv.len() == 2, "C07: one value per gate (16-bit words, consuming conversion)");
    wit!(d[0] == 1 && d[1] == 0);
    core::mem::forget((mv, md));
}
