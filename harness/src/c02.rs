//! C02 — type-31 messages decode field-exactly from the ICD layout.
//! Oracle: ICD 2620002W byte offsets written out here, independent of the serde field order.
use nexrad_decode::messages::digital_radar_data::{
    decode_digital_radar_data, GenericDataBlock, Header, Message,
};
use std::io::Cursor;

pub fn be16(b: &[u8], o: usize) -> u16 {
    u16::from_be_bytes([b[o], b[o + 1]])
}
pub fn be32(b: &[u8], o: usize) -> u32 {
    u32::from_be_bytes([b[o], b[o + 1], b[o + 2], b[o + 3]])
}

/// ICD Table XVII: the 32-byte data header (message-relative offsets).
pub fn check_header(h: &Header, b: &[u8]) {
    assert!(h.radar_identifier[0] == b[0] && h.radar_identifier[1] == b[1]);
    assert!(h.radar_identifier[2] == b[2] && h.radar_identifier[3] == b[3]);
    assert!(h.time == be32(b, 4), "C02: header.time");
    assert!(h.date == be16(b, 8), "C02: header.date");
    assert!(h.azimuth_number == be16(b, 10), "C02: header.azimuth_number");
    assert!(h.azimuth_angle.to_bits() == be32(b, 12), "C02: header.azimuth_angle");
    assert!(h.compression_indicator == b[16], "C02: header.compression_indicator");
    assert!(h.spare == b[17]);
    assert!(h.radial_length == be16(b, 18), "C02: header.radial_length");
    assert!(h.azimuth_resolution_spacing == b[20], "C02: header.azimuth_resolution_spacing");
    assert!(h.radial_status == b[21], "C02: header.radial_status");
    assert!(h.elevation_number == b[22], "C02: header.elevation_number");
    assert!(h.cut_sector_number == b[23], "C02: header.cut_sector_number");
    assert!(h.elevation_angle.to_bits() == be32(b, 24), "C02: header.elevation_angle");
    assert!(h.radial_spot_blanking_status == b[28], "C02: header.radial_spot_blanking_status");
    assert!(h.azimuth_indexing_mode == b[29], "C02: header.azimuth_indexing_mode");
    assert!(h.data_block_count == be16(b, 30), "C02: header.data_block_count");
}

fn decode_ok(b: &[u8]) -> (Message, u64) {
    let mut c = Cursor::new(b);
    match decode_digital_radar_data(&mut c) {
        Ok(m) => (m, c.position()),
        Err(e) => {
            core::mem::forget(e);
            panic!("C02: a well-formed type-31 message failed to decode")
        }
    }
}

fn present_mask(m: &Message) -> u16 {
    (m.volume_data_block.is_some() as u16)
        | (m.elevation_data_block.is_some() as u16) << 1
        | (m.radial_data_block.is_some() as u16) << 2
        | (m.reflectivity_data_block.is_some() as u16) << 3
        | (m.velocity_data_block.is_some() as u16) << 4
        | (m.spectrum_width_data_block.is_some() as u16) << 5
        | (m.differential_reflectivity_data_block.is_some() as u16) << 6
        | (m.differential_phase_data_block.is_some() as u16) << 7
        | (m.correlation_coefficient_data_block.is_some() as u16) << 8
        | (m.specific_diff_phase_data_block.is_some() as u16) << 9
}

/// header + one pointer (= 36) + one block named `name` at offset 36
fn one_block<const L: usize>(name: &[u8; 3]) -> [u8; L] {
    let mut b: [u8; L] = kani::any();
    b[30] = 0;
    b[31] = 1;
    b[32] = 0;
    b[33] = 0;
    b[34] = 0;
    b[35] = 36;
    b[37] = name[0];
    b[38] = name[1];
    b[39] = name[2];
    b
}

/// Volume data block, ICD Table XVII-E (block-relative offsets), 52 bytes as defined by the crate.
#[kani::proof]
#[kani::unwind(8)]
#[kani::stub(alloc::fmt::format, crate::stubs::fmt_format)]
#[kani::stub(<[u8; 4] as core::convert::TryFrom<&[u8]>>::try_from, crate::stubs::array_try_from)]
fn c02_header_vol() {
    let b = one_block::<88>(b"VOL");
    let (m, pos) = decode_ok(&b);
    check_header(&m.header, &b);
    assert!(present_mask(&m) == 1, "C02: VOL block routed to the wrong product / extra blocks");
    let v = match &m.volume_data_block {
        Some(v) => v,
        None => panic!("C02: VOL absent"),
    };
    let o = 36;
    assert!(v.data_block_id.data_block_type == b[o]);
    assert!(v.data_block_id.data_name[0] == b'V' && v.data_block_id.data_name[1] == b'O' && v.data_block_id.data_name[2] == b'L');
    assert!(v.lrtup == be16(&b, o + 4), "C02: VOL.lrtup");
    assert!(v.major_version_number == b[o + 6], "C02: VOL.major_version_number");
    assert!(v.minor_version_number == b[o + 7], "C02: VOL.minor_version_number");
    assert!(v.latitude.to_bits() == be32(&b, o + 8), "C02: VOL.latitude");
    assert!(v.longitude.to_bits() == be32(&b, o + 12), "C02: VOL.longitude");
    assert!(v.site_height == be16(&b, o + 16) as i16, "C02: VOL.site_height");
    assert!(v.feedhorn_height == be16(&b, o + 18), "C02: VOL.feedhorn_height");
    assert!(v.calibration_constant.to_bits() == be32(&b, o + 20), "C02: VOL.calibration_constant");
    assert!(v.horizontal_shv_tx_power.to_bits() == be32(&b, o + 24), "C02: VOL.horizontal_shv_tx_power");
    assert!(v.vertical_shv_tx_power.to_bits() == be32(&b, o + 28), "C02: VOL.vertical_shv_tx_power");
    assert!(v.system_differential_reflectivity.to_bits() == be32(&b, o + 32), "C02: VOL.system_differential_reflectivity");
    assert!(v.initial_system_differential_phase.to_bits() == be32(&b, o + 36), "C02: VOL.initial_system_differential_phase");
    assert!(v.volume_coverage_pattern_number == be16(&b, o + 40), "C02: VOL.volume_coverage_pattern_number");
    assert!(v.processing_status == be16(&b, o + 42), "C02: VOL.processing_status");
    assert!(v.zdr_bias_estimate_weighted_mean == be16(&b, o + 44), "C02: VOL.zdr_bias_estimate_weighted_mean");
    let mut i = 0;
    while i < 6 {
        assert!(v.spare[i] == b[o + 46 + i]);
        i += 1;
    }
    assert!(pos == 88, "C02: reader must stop right after the block");
    wit!(v.lrtup == 0x0102 && v.latitude.to_bits() == 0x7fc00001, "witness: NaN payload preserved");
    core::mem::forget(m);
}

/// Elevation data block (12 bytes): ICD Table XVII-F.
#[kani::proof]
#[kani::unwind(6)]
#[kani::stub(alloc::fmt::format, crate::stubs::fmt_format)]
#[kani::stub(<[u8; 4] as core::convert::TryFrom<&[u8]>>::try_from, crate::stubs::array_try_from)]
fn c02_elv() {
    let b = one_block::<48>(b"ELV");
    let (m, pos) = decode_ok(&b);
    check_header(&m.header, &b);
    assert!(present_mask(&m) == 2, "C02: ELV block routed to the wrong product / extra blocks");
    let e = match &m.elevation_data_block {
        Some(e) => e,
        None => panic!("C02: ELV absent"),
    };
    let o = 36;
    assert!(e.data_block_id.data_block_type == b[o]);
    assert!(e.data_block_id.data_name[0] == b'E' && e.data_block_id.data_name[1] == b'L' && e.data_block_id.data_name[2] == b'V');
    assert!(e.lrtup == be16(&b, o + 4), "C02: ELV.lrtup");
    assert!(e.atmos == be16(&b, o + 6) as i16, "C02: ELV.atmos");
    assert!(e.calibration_constant.to_bits() == be32(&b, o + 8), "C02: ELV.calibration_constant");
    assert!(pos == 48);
    wit!(e.atmos == -2 && e.lrtup == 12);
    core::mem::forget(m);
}

/// Radial data block (28 bytes): ICD Table XVII-H.
#[kani::proof]
#[kani::unwind(6)]
#[kani::stub(alloc::fmt::format, crate::stubs::fmt_format)]
#[kani::stub(<[u8; 4] as core::convert::TryFrom<&[u8]>>::try_from, crate::stubs::array_try_from)]
fn c02_rad() {
    let b = one_block::<64>(b"RAD");
    let (m, pos) = decode_ok(&b);
    check_header(&m.header, &b);
    assert!(present_mask(&m) == 4, "C02: RAD block routed to the wrong product / extra blocks");
    let r = match &m.radial_data_block {
        Some(r) => r,
        None => panic!("C02: RAD absent"),
    };
    let o = 36;
    assert!(r.data_block_id.data_block_type == b[o]);
    assert!(r.data_block_id.data_name[0] == b'R' && r.data_block_id.data_name[1] == b'A' && r.data_block_id.data_name[2] == b'D');
    assert!(r.lrtup == be16(&b, o + 4), "C02: RAD.lrtup");
    assert!(r.unambiguous_range == be16(&b, o + 6), "C02: RAD.unambiguous_range");
    assert!(r.horizontal_channel_noise_level.to_bits() == be32(&b, o + 8), "C02: RAD.horizontal_channel_noise_level");
    assert!(r.vertical_channel_noise_level.to_bits() == be32(&b, o + 12), "C02: RAD.vertical_channel_noise_level");
    assert!(r.nyquist_velocity == be16(&b, o + 16), "C02: RAD.nyquist_velocity");
    assert!(r.radial_flags == be16(&b, o + 18), "C02: RAD.radial_flags");
    assert!(r.horizontal_channel_calibration_constant.to_bits() == be32(&b, o + 20), "C02: RAD.horizontal_channel_calibration_constant");
    assert!(r.vertical_channel_calibration_constant.to_bits() == be32(&b, o + 24), "C02: RAD.vertical_channel_calibration_constant");
    assert!(pos == 64);
    wit!(r.nyquist_velocity == 0x0102 && r.radial_flags == 0x0304);
    core::mem::forget(m);
}

pub const GENERIC_NAMES: [[u8; 3]; 7] = [*b"REF", *b"VEL", *b"SW ", *b"ZDR", *b"PHI", *b"RHO", *b"CFP"];

pub fn generic_of(m: &Message, k: usize) -> Option<&GenericDataBlock> {
    match k {
        0 => m.reflectivity_data_block.as_ref(),
        1 => m.velocity_data_block.as_ref(),
        2 => m.spectrum_width_data_block.as_ref(),
        3 => m.differential_reflectivity_data_block.as_ref(),
        4 => m.differential_phase_data_block.as_ref(),
        5 => m.correlation_coefficient_data_block.as_ref(),
        _ => m.specific_diff_phase_data_block.as_ref(),
    }
}

/// Generic moment block header (28 bytes, ICD Table XVII-B) at offset o, followed by gate bytes.
pub fn check_generic(g: &GenericDataBlock, b: &[u8], o: usize) -> usize {
    let h = &g.header;
    assert!(h.data_block_id.data_block_type == b[o]);
    assert!(h.data_block_id.data_name[0] == b[o + 1] && h.data_block_id.data_name[1] == b[o + 2] && h.data_block_id.data_name[2] == b[o + 3]);
    assert!(h.reserved == be32(b, o + 4), "C02: moment.reserved");
    assert!(h.number_of_data_moment_gates == be16(b, o + 8), "C02: moment.number_of_data_moment_gates");
    assert!(h.data_moment_range == be16(b, o + 10), "C02: moment.data_moment_range");
    assert!(h.data_moment_range_sample_interval == be16(b, o + 12), "C02: moment.data_moment_range_sample_interval");
    assert!(h.tover == be16(b, o + 14), "C02: moment.tover");
    assert!(h.snr_threshold == be16(b, o + 16), "C02: moment.snr_threshold");
    assert!(h.control_flags == b[o + 18], "C02: moment.control_flags");
    assert!(h.data_word_size == b[o + 19], "C02: moment.data_word_size");
    assert!(h.scale.to_bits() == be32(b, o + 20), "C02: moment.scale");
    assert!(h.offset.to_bits() == be32(b, o + 24), "C02: moment.offset");
    let n = be16(b, o + 8) as usize * (b[o + 19] as usize / 8);
    assert!(g.encoded_data.len() == n, "C02: gate buffer length != gates x word-bytes");
    let mut i = 0;
    while i < n {
        assert!(g.encoded_data[i] == b[o + 28 + i], "C02: gate bytes altered");
        i += 1;
    }
    n
}

fn generic_kind<const MAXG: u16, const L: usize>(k: usize) {
    let b = one_block::<L>(&GENERIC_NAMES[k]);
    let gates = be16(&b, 36 + 8);
    let word = b[36 + 19];
    kani::assume(gates <= MAXG);
    kani::assume(word == 8 || word == 16);
    let (m, pos) = decode_ok(&b);
    check_header(&m.header, &b);
    assert!(present_mask(&m) == 1 << (3 + k), "C02: moment block routed to the wrong product / extra blocks");
    let g = match generic_of(&m, k) {
        Some(g) => g,
        None => panic!("C02: moment block absent"),
    };
    let n = check_generic(g, &b, 36);
    assert!(pos as usize == 36 + 28 + n, "C02: reader must stop right after the gate bytes");
    wit!(gates == MAXG && word == 16, "witness: 16-bit words, max gates");
    wit!(gates == 0);
    core::mem::forget(m);
}

macro_rules! generic_harness {
    ($name:ident, $k:expr, $g:expr, $u:expr) => {
        #[kani::proof]
        #[kani::unwind($u)]
        #[kani::stub(alloc::fmt::format, crate::stubs::fmt_format)]
        #[kani::stub(<[u8; 4] as core::convert::TryFrom<&[u8]>>::try_from, crate::stubs::array_try_from)]
        fn $name() {
            generic_kind::<$g, { 36 + 28 + 2 * $g }>($k);
        }
    };
}
generic_harness!(c02_ref, 0, 3, 8);
generic_harness!(c02_vel, 1, 3, 8);
generic_harness!(c02_sw, 2, 3, 8);
generic_harness!(c02_zdr, 3, 3, 8);
generic_harness!(c02_phi, 4, 3, 8);
generic_harness!(c02_rho, 5, 3, 8);
generic_harness!(c02_cfp, 6, 3, 8);
generic_harness!(c02_ref_g8, 0, 8, 18);
generic_harness!(c02_phi_g8, 4, 8, 18);

/// Absent blocks are reported absent: block count 0, any header.
#[kani::proof]
#[kani::unwind(3)]
#[kani::stub(alloc::fmt::format, crate::stubs::fmt_format)]
#[kani::stub(<[u8; 4] as core::convert::TryFrom<&[u8]>>::try_from, crate::stubs::array_try_from)]
fn c02_no_blocks() {
    let mut b: [u8; 40] = kani::any();
    b[30] = 0;
    b[31] = 0;
    let (m, pos) = decode_ok(&b);
    check_header(&m.header, &b);
    assert!(present_mask(&m) == 0);
    assert!(pos == 32);
    wit!(m.header.elevation_number == 7);
    core::mem::forget(m);
}

// ---- two blocks: dispatch, gaps, permuted pointer table ---------------------------------------
const KIND_NAMES: [[u8; 3]; 10] = [*b"VOL", *b"ELV", *b"RAD", *b"REF", *b"VEL", *b"SW ", *b"ZDR", *b"PHI", *b"RHO", *b"CFP"];

const fn block_len(kind: usize, data: usize) -> usize {
    match kind {
        0 => 52,
        1 => 12,
        2 => 28,
        _ => 28 + data,
    }
}

/// Spot checks that tie a decoded non-moment block to ITS bytes (full field tables: c02_header_vol,
/// c02_elv, c02_rad).
fn check_fixed_block(m: &Message, kind: usize, b: &[u8], o: usize) {
    match kind {
        0 => {
            let v = match &m.volume_data_block {
                Some(v) => v,
                None => panic!("C02: VOL absent"),
            };
            assert!(v.lrtup == be16(b, o + 4) && v.volume_coverage_pattern_number == be16(b, o + 40), "C02: VOL decoded from the wrong bytes");
            assert!(v.latitude.to_bits() == be32(b, o + 8));
        }
        1 => {
            let e = match &m.elevation_data_block {
                Some(e) => e,
                None => panic!("C02: ELV absent"),
            };
            assert!(e.lrtup == be16(b, o + 4) && e.calibration_constant.to_bits() == be32(b, o + 8), "C02: ELV decoded from the wrong bytes");
        }
        _ => {
            let r = match &m.radial_data_block {
                Some(r) => r,
                None => panic!("C02: RAD absent"),
            };
            assert!(r.lrtup == be16(b, o + 4) && r.nyquist_velocity == be16(b, o + 16), "C02: RAD decoded from the wrong bytes");
        }
    }
}

/// Message = header(32) + pointer table(8) + GAP1 + block A + GAP2 + block B; the pointer table lists
/// (A, B) or, when PERMUTE, (B, A).  Moment blocks carry DATA bytes (gates = DATA/word-bytes).
fn two_blocks<const KA: usize, const KB: usize, const GAP1: usize, const GAP2: usize, const PERMUTE: bool, const DATA: usize, const L: usize>() {
    two_blocks_lrtup::<KA, KB, GAP1, GAP2, PERMUTE, DATA, L, 0>()
}

/// LRA != 0: block A is a fixed block (VOL/ELV/RAD) whose declared size field (lrtup, bytes 4..6) is
/// the CONCRETE value LRA - e.g. the distance to the next block when a gap follows - so that a decoder
/// which trusts that field to locate the next block is decided (with a symbolic lrtup its reader
/// position turns symbolic: out of 16 GB).
fn two_blocks_lrtup<const KA: usize, const KB: usize, const GAP1: usize, const GAP2: usize, const PERMUTE: bool, const DATA: usize, const L: usize, const LRA: usize>() {
    let mut b: [u8; L] = kani::any();
    let oa = 40 + GAP1;
    let ob = oa + block_len(KA, DATA) + GAP2;
    assert!(ob + block_len(KB, DATA) == L);
    b[30] = 0;
    b[31] = 2;
    let (p0, p1) = if PERMUTE { (ob, oa) } else { (oa, ob) };
    b[32..36].copy_from_slice(&(p0 as u32).to_be_bytes());
    b[36..40].copy_from_slice(&(p1 as u32).to_be_bytes());
    let mut setup = |o: usize, k: usize| {
        b[o + 1] = KIND_NAMES[k][0];
        b[o + 2] = KIND_NAMES[k][1];
        b[o + 3] = KIND_NAMES[k][2];
        if k >= 3 {
            // word size 8 or 16 (symbolic), gates so that the data is exactly DATA bytes
            let w16: bool = kani::any();
            let word = if w16 && DATA % 2 == 0 { 16u8 } else { 8u8 };
            let gates = (DATA / (word as usize / 8)) as u16;
            b[o + 8..o + 10].copy_from_slice(&gates.to_be_bytes());
            b[o + 19] = word;
        }
    };
    setup(oa, KA);
    setup(ob, KB);
    if LRA != 0 {
        b[oa + 4] = (LRA >> 8) as u8;
        b[oa + 5] = LRA as u8;
        // gap bytes concrete: if they are mistaken for a block, its name must not be symbolic
        let mut i = oa + block_len(KA, DATA);
        while i < ob {
            b[i] = 0;
            i += 1;
        }
    }
    let (m, pos) = decode_ok(&b);
    check_header(&m.header, &b);
    assert!(present_mask(&m) == (1 << KA) | (1 << KB), "C02: blocks routed to the wrong products / extra or missing blocks");
    let mut chk = |k: usize, o: usize| {
        if k >= 3 {
            let g = match generic_of(&m, k - 3) {
                Some(g) => g,
                None => panic!("C02: moment block absent"),
            };
            let n = check_generic(g, &b, o);
            assert!(n == DATA);
        } else {
            check_fixed_block(&m, k, &b, o);
        }
    };
    chk(KA, oa);
    chk(KB, ob);
    // the reader ends after the block named by the LAST pointer
    let last_end = if PERMUTE { oa + block_len(KA, DATA) } else { ob + block_len(KB, DATA) };
    assert!(pos as usize == last_end, "C02/C03: reader must end after the last block in pointer order");
    wit!(b[oa] == 0x44);
    core::mem::forget(m);
}

macro_rules! two_block_harness {
    ($name:ident, $ka:expr, $kb:expr, $g1:expr, $g2:expr, $perm:expr, $data:expr) => {
        #[kani::proof]
        #[kani::unwind(10)]
        #[kani::stub(alloc::fmt::format, crate::stubs::fmt_format)]
        #[kani::stub(<[u8; 4] as core::convert::TryFrom<&[u8]>>::try_from, crate::stubs::array_try_from)]
        fn $name() {
            two_blocks::<$ka, $kb, $g1, $g2, $perm, $data, { 40 + $g1 + block_len($ka, $data) + $g2 + block_len($kb, $data) }>();
        }
    };
}
two_block_harness!(c02_two_vol_ref, 0, 3, 0, 0, false, 4);

/// VOL (declared size 60 = its 52 bytes + the 8-byte gap) followed by ELV after the gap.
#[kani::proof]
#[kani::unwind(12)]
#[kani::stub(alloc::fmt::format, crate::stubs::fmt_format)]
#[kani::stub(<[u8; 4] as core::convert::TryFrom<&[u8]>>::try_from, crate::stubs::array_try_from)]
fn c02_two_vol_elv_declared_size_spans_gap() {
    two_blocks_lrtup::<0, 1, 0, 8, false, 0, { 40 + block_len(0, 0) + 8 + block_len(1, 0) }, 60>();
}
two_block_harness!(c02_two_ref_vol_permuted_gaps, 3, 0, 3, 1, true, 2);
two_block_harness!(c02_two_elv_rad_gap, 1, 2, 4, 0, false, 0);
two_block_harness!(c02_two_phi_rho_permuted, 7, 8, 0, 2, true, 4);
two_block_harness!(c02_two_cfp_zdr, 9, 6, 1, 0, false, 3);
