//! C15 — latest-volume discovery: the rotated search over the directory array.
//! Real code: nexrad_data::aws::realtime::search::search (through the verif-hooks wrapper), driven
//! with an in-memory bucket shape.  get_latest_volume itself performs S3 listings and is not encoded.
use core::cell::Cell;
use core::future::Future;
use core::pin::pin;
use core::task::{Context, Poll, Waker};
use nexrad_data::verif_hooks::search;

fn block_on<F: Future>(f: F) -> F::Output {
    let mut f = pin!(f);
    let mut cx = Context::from_waker(Waker::noop());
    match f.as_mut().poll(&mut cx) {
        Poll::Ready(v) => v,
        Poll::Pending => panic!("harness: the in-memory bucket never blocks"),
    }
}

/// Bucket shape: N directories, the populated ones are the run of `c` directories ending at the
/// newest position `p` (going backwards with wrap-around); upload times increase along the run.
/// f(i) = Some(age rank 1..=c) inside the run, None outside.
fn shape_value(n: usize, p: usize, c: usize, i: usize) -> Option<u32> {
    // distance going backwards from p to i, modulo n
    let back = if i <= p { p - i } else { p + n - i };
    if back < c {
        Some((c - back) as u32)
    } else {
        None
    }
}

fn latest<const N: usize>() {
    let p: usize = kani::any();
    let c: usize = kani::any();
    kani::assume(p < N && c <= N);
    let calls = Cell::new(0usize);
    let r = block_on(search(N, u32::MAX, |i| {
        calls.set(calls.get() + 1);
        assert!(i < N, "C15: directory index out of range requested");
        let v = shape_value(N, p, c, i);
        async move { Ok(v) }
    }));
    let r = match r {
        Ok(r) => r,
        Err(e) => {
            core::mem::forget(e);
            panic!("C15: search failed on an in-memory bucket")
        }
    };
    if c == 0 {
        assert!(r.is_none(), "C15: empty bucket must give none");
    } else {
        assert!(r == Some(p), "C15: stale or wrong directory returned as the latest volume");
    }
    // listing requests: at most N + ceil(log2 N) + 2
    let mut lg = 0usize;
    while (1usize << lg) < N {
        lg += 1;
    }
    assert!(calls.get() <= N + lg + 2, "C15: too many listing requests");
    wit!(c == N && p == N - 1);
    wit!(c == 0);
    wit!(N > 2 && c == 1 && p == 1);
}

macro_rules! latest_harness {
    ($name:ident, $n:expr, $u:expr) => {
        #[kani::proof]
        #[kani::unwind($u)]
        #[kani::stub(alloc::fmt::format, crate::stubs::fmt_format)]
        fn $name() {
            latest::<$n>();
        }
    };
}
latest_harness!(c15_latest_n1, 1, 8);
latest_harness!(c15_latest_n2, 2, 10);
latest_harness!(c15_latest_n3, 3, 12);
latest_harness!(c15_latest_n4, 4, 14);
latest_harness!(c15_latest_n5, 5, 16);
latest_harness!(c15_latest_n6, 6, 18);
