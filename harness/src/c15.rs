//! C15 — latest-volume discovery: the rotated search over the directory array.
//! Real code: nexrad_data::aws::realtime::search::search (through the verif-hooks wrapper), driven
//! with an in-memory bucket shape.  get_latest_volume itself performs S3 listings and is not encoded.
use core::cell::Cell;
use core::future::Future;
use core::pin::pin;
use core::task::{Context, Poll, Waker};
use nexrad_data::verif_hooks::search;

/// A future that is ready at its first poll and owns no error value (its drop glue is trivial).
/// With core::future::Ready<Result<_, Error>> the coroutine's drop glue reaches io::Error's destructor
/// (DESIGN.md A.2b); with this one symbolic execution of an N = 1 shape takes 42 s instead of > 10 min.
struct Imm(Option<u32>);
impl Future for Imm {
    type Output = nexrad_data::result::Result<Option<u32>>;
    fn poll(self: core::pin::Pin<&mut Self>, _cx: &mut Context<'_>) -> Poll<Self::Output> {
        Poll::Ready(Ok(self.0))
    }
}

fn block_on<F: Future>(f: F) -> F::Output {
    let mut f = pin!(f);
    let mut cx = Context::from_waker(Waker::noop());
    match f.as_mut().poll(&mut cx) {
        Poll::Ready(v) => v,
        Poll::Pending => panic!("harness: the in-memory bucket never blocks"),
    }
}

/// Bucket shape: N directories, the populated ones are the run of `c` directories ending at the
/// newest position `p` (going backwards with wrap-around).  WHICH directories are populated is
/// concrete per run (CBMC cannot carry the search's VecDeque through a symbolic split, see
/// DESIGN.md C15); their upload times are symbolic: any strictly increasing u32 values along the run.
fn latest<const N: usize>() {
    let mut c = 0usize;
    while c <= N {
        let mut p = 0usize;
        while p < N {
            if c == 0 && p > 0 {
                break;
            }
            run_shape::<N>(p, c);
            p += 1;
        }
        c += 1;
    }
}

fn run_shape<const N: usize>(p: usize, c: usize) {
    // times[k] = upload time of the k-th oldest populated directory
    let t: [u32; N] = kani::any();
    let mut k = 1;
    while k < c {
        kani::assume(t[k - 1] < t[k]);
        k += 1;
    }
    if c > 0 {
        kani::assume(t[c - 1] < u32::MAX);
    }
    let mut table: [Option<u32>; N] = [None; N];
    let mut k = 0;
    while k < c {
        // k-th oldest sits c-1-k steps behind the newest position p
        let back = c - 1 - k;
        let idx = (p + N - back) % N;
        table[idx] = Some(t[k]);
        k += 1;
    }
    let calls = Cell::new(0usize);
    let r = block_on(search(N, u32::MAX, |i| {
        calls.set(calls.get() + 1);
        assert!(i < N, "C15: directory index out of range requested");
        Imm(table[i])
    }));
    let r = match r {
        Ok(r) => r,
        Err(e) => {
            core::mem::forget(e);
            panic!("C15: search failed on an in-memory bucket")
        }
    };
    if c == 0 {
        assert!(r.is_none(), "C15: empty bucket must give none");
    } else {
        assert!(r == Some(p), "C15: stale or wrong directory returned as the latest volume");
    }
    // listing requests: at most N + ceil(log2 N) + 2
    let mut lg = 0usize;
    while (1usize << lg) < N {
        lg += 1;
    }
    assert!(calls.get() <= N + lg + 2, "C15: too many listing requests");
    wit!(c == N && p == N - 1);
    wit!(c == 0);
}

macro_rules! latest_harness {
    ($name:ident, $n:expr, $u:expr) => {
        #[kani::proof]
        #[kani::unwind($u)]
        #[kani::stub(alloc::fmt::format, crate::stubs::fmt_format)]
        fn $name() {
            latest::<$n>();
        }
    };
}
latest_harness!(c15_latest_n1, 1, 8);
latest_harness!(c15_latest_n2, 2, 10);
latest_harness!(c15_latest_n3, 3, 12);
latest_harness!(c15_latest_n4, 4, 14);
latest_harness!(c15_latest_n5, 5, 16);
latest_harness!(c15_latest_n6, 6, 18);
