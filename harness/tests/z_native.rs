//! Native side of engine Z (see /verif/smt): runs the REAL functions on concrete inputs given in
//! the environment and prints their results, so that (a) SMT counterexamples are replayed against
//! the real code before they are reported and (b) the MIR->SMT translator is validated on fixed
//! inputs on every run.  Not compiled by Kani (integration tests are native only).
use nexrad_decode::messages::digital_radar_data::{
    DataBlockId, GenericDataBlock, GenericDataBlockHeader, ScaledMomentValue,
};
use nexrad_model::data::{MomentData, MomentValue};

fn block(scale: f32, offset: f32, raw: u16) -> GenericDataBlock {
    // raw < 256 travels as an 8-bit gate, anything larger as a 16-bit big-endian gate
    let (word, data) = if raw < 256 { (8u8, vec![raw as u8]) } else { (16u8, vec![(raw >> 8) as u8, raw as u8]) };
    GenericDataBlock {
        header: GenericDataBlockHeader {
            data_block_id: DataBlockId { data_block_type: b'D', data_name: *b"REF" },
            reserved: 0,
            number_of_data_moment_gates: 1,
            data_moment_range: 0,
            data_moment_range_sample_interval: 0,
            tover: 0,
            snr_threshold: 0,
            control_flags: 0,
            data_word_size: word,
            scale,
            offset,
        },
        encoded_data: data,
    }
}

/// NVH_Z_C07 = lines "scale_bits offset_bits raw" (decimal).  Output per line:
/// "C07 <scale_bits> <offset_bits> <raw> D <tag> <payload_bits> M <tag> <payload_bits>"
/// with tag 0 = Value, 1 = BelowThreshold, 2 = RangeFolded.
#[test]
fn z_c07() {
    let inp = match std::env::var("NVH_Z_C07") {
        Ok(s) => s,
        Err(_) => return,
    };
    for line in inp.lines() {
        let p: Vec<&str> = line.split_whitespace().collect();
        if p.len() != 3 {
            continue;
        }
        let (sb, ob, raw): (u32, u32, u16) = (p[0].parse().unwrap(), p[1].parse().unwrap(), p[2].parse().unwrap());
        let b = block(f32::from_bits(sb), f32::from_bits(ob), raw);
        let d = b.decoded_values();
        let m = b.moment_data().values();
        assert_eq!(d.len(), 1);
        assert_eq!(m.len(), 1);
        let (dt, dp) = match d[0] {
            ScaledMomentValue::Value(v) => (0, v.to_bits()),
            ScaledMomentValue::BelowThreshold => (1, 0),
            ScaledMomentValue::RangeFolded => (2, 0),
        };
        let (mt, mp) = match m[0] {
            MomentValue::Value(v) => (0, v.to_bits()),
            MomentValue::BelowThreshold => (1, 0),
            MomentValue::RangeFolded => (2, 0),
        };
        println!("C07 {} {} {} D {} {} M {} {}", sb, ob, raw, dt, dp, mt, mp);
    }
}

/// NVH_Z_GATES = lines "gates word" (decimal).  Decodes a one-block type-31 message (REF) with that
/// gate count and word size through the public decoder and prints the length of the gate buffer the
/// real code allocated: "GATES <gates> <word> <len or ERR>".  The input carries gates * (word / 8)
/// gate bytes, so a correct decoder succeeds and reports exactly that length.
#[test]
fn z_gates() {
    let inp = match std::env::var("NVH_Z_GATES") {
        Ok(s) => s,
        Err(_) => return,
    };
    for line in inp.lines() {
        let p: Vec<&str> = line.split_whitespace().collect();
        if p.len() != 2 {
            continue;
        }
        let (gates, word): (u16, u8) = (p[0].parse().unwrap(), p[1].parse().unwrap());
        let want = gates as usize * (word as usize / 8);
        let mut b = vec![0u8; 32 + 4 + 28 + want];
        b[31] = 1;
        b[35] = 36;
        b[36] = b'D';
        b[37] = b'R';
        b[38] = b'E';
        b[39] = b'F';
        b[44] = (gates >> 8) as u8;
        b[45] = gates as u8;
        b[55] = word;
        let mut c = std::io::Cursor::new(&b[..]);
        match nexrad_decode::messages::digital_radar_data::decode_digital_radar_data(&mut c) {
            Ok(m) => match &m.reflectivity_data_block {
                Some(r) => println!("GATES {} {} {}", gates, word, r.encoded_data.len()),
                None => println!("GATES {} {} ERR", gates, word),
            },
            Err(_) => println!("GATES {} {} ERR", gates, word),
        }
    }
}
