"""Registry of properties and proof harnesses (read by bin/check and bin/mkmanifest)."""

PROPS = {}
HARNESSES = []

FMT = "alloc::fmt::format->String::new()"


def prop(pid, **kw):
    PROPS[pid] = kw


def h(prop_id, name, tier="quick", **kw):
    d = dict(prop=prop_id, name=name, tier=tier)
    d.update(kw)
    HARNESSES.append(d)


# ------------------------------------------------------------------------------------------- C10
prop("C10",
     level_text="Bounded model checking with no bound in play: the decoder and every header accessor are loop-free, so each SAT query covers all 2^224 headers; a pass is exhaustive over the header's input space for the compiled code.",
     level_note="Trusted: Kani/CBMC/CaDiCaL and Kani's std models; alloc::fmt::format stubbed to String::new() (error text only); harness-side ICD offset table and type-code table are the oracle.",
     outside="nothing inside the 28-byte header; Debug formatting of the header is not encoded",
     assumptions=["rda_redundant_channel() is only called on the six defined codes (the property is silent on others)"])
HDR = ["nexrad_decode::messages::decode_message_header", "nexrad_decode::util::deserialize (bincode fixint big-endian)"]
h("C10", "c10::c10_layout", funcs=HDR, space="all 2^224 28-byte headers", bounds="no loop; complete")
h("C10", "c10::c10_type_map", funcs=HDR + ["MessageHeader::message_type"], space="2 x all 2^224 headers (pairwise distinctness)", bounds="no loop; complete")
h("C10", "c10::c10_channel", funcs=HDR + ["MessageHeader::rda_redundant_channel", "<RedundantChannel as Debug>::fmt"], space="all headers whose channel code is one of the six defined", bounds="unwind 34 (variant name <= 32 bytes)")
h("C10", "c10::c10_size_plain", funcs=HDR + ["MessageHeader::{segmented,segment_count,segment_number,message_size_bytes}"], space="all 2^224 headers", bounds="no loop; complete")
h("C10", "c10::c10_size_uom", funcs=HDR + ["MessageHeader::{message_size,segment_size,message_size_bytes}", "uom Information::new/get::<byte>"], space="all 2^224 headers", bounds="no loop; complete")
h("C10", "c10::c10_total", funcs=HDR + ["all MessageHeader accessors"], space="all 2^224 headers", bounds="no loop; complete")
