"""Registry of properties and proof harnesses (read by bin/check and bin/mkmanifest)."""

PROPS = {}
HARNESSES = []
# properties whose check is registered in MANIFEST.json (the others are listed under not_applicable)
CLAIMED = ["C02", "C03", "C04", "C05", "C06", "C07", "C08", "C09", "C10", "C11", "C12", "C13", "C14", "C16", "C19"]

FMT = "alloc::fmt::format->String::new()"


def prop(pid, **kw):
    PROPS[pid] = kw


def h(prop_id, name, tier="quick", **kw):
    d = dict(prop=prop_id, name=name, tier=tier)
    d.update(kw)
    HARNESSES.append(d)


# ------------------------------------------------------------------------------------------- C10
prop("C10",
     level_text="Bounded model checking with no bound in play: the decoder and every header accessor are loop-free, so each SAT query covers all 2^224 headers; a pass is exhaustive over the header's input space for the compiled code.",
     level_note="Trusted: Kani/CBMC/CaDiCaL and Kani's std models; alloc::fmt::format stubbed to String::new() (error text only); harness-side ICD offset table and type-code table are the oracle.",
     outside="nothing inside the 28-byte header; Debug formatting of the header is not encoded",
     assumptions=["rda_redundant_channel() is only called on the six defined codes (the property is silent on others)"])
HDR = ["nexrad_decode::messages::decode_message_header", "nexrad_decode::util::deserialize (bincode fixint big-endian)"]
h("C10", "c10::c10_layout", funcs=HDR, space="all 2^224 28-byte headers", bounds="no loop; complete")
h("C10", "c10::c10_type_map", funcs=HDR + ["MessageHeader::message_type"], space="2 x all 2^224 headers (pairwise distinctness)", bounds="no loop; complete")
h("C10", "c10::c10_channel", funcs=HDR + ["MessageHeader::rda_redundant_channel", "<RedundantChannel as Debug>::fmt"], space="all headers whose channel code is one of the six defined", bounds="unwind 34 (variant name <= 32 bytes)")
h("C10", "c10::c10_size_plain", funcs=HDR + ["MessageHeader::{segmented,segment_count,segment_number,message_size_bytes}"], space="all 2^224 headers", bounds="no loop; complete")
h("C10", "c10::c10_size_uom", funcs=HDR + ["MessageHeader::{message_size,segment_size,message_size_bytes}", "uom Information::new/get::<byte>"], space="all 2^224 headers", bounds="no loop; complete")
h("C10", "c10::c10_total", funcs=HDR + ["all MessageHeader accessors"], space="all 2^224 headers", bounds="no loop; complete")

# ------------------------------------------------------------------------------------------- C09
prop("C09",
     level_text="Bounded model checking of Sweep::from_radials / Sweep::merge on Vec<Radial> built from symbolic elevation and azimuth numbers: every sequence up to the stated length is covered in one SAT query each; longer sequences are outside the claim (the loop body and its only state, the pending run, are the same for every element).",
     level_note="Trusted: Kani/CBMC and Kani's model of Vec/alloc and slice::sort (insertion-sort path for < 20 elements). Radials carry no moment data (grouping/merging never looks at it).",
     outside="from_radials on more than 4 radials, and symbolic elevation *values* beyond one radial (N = 2..=4 run every adjacent-equality pattern with concrete labels); merges larger than 2+2 (quick) / 3+2 (thorough); std's non-insertion sort paths (> 20 elements)")
FR = ["nexrad_model::data::Sweep::from_radials", "Sweep::{new,radials,elevation_number}", "Radial::new"]
MG = ["nexrad_model::data::Sweep::merge", "slice::sort_by_key (std)", "Vec::extend"]
for n, tier, mem, to in ((0, "quick", 6, 600), (1, "quick", 10, 900)):
    h("C09", "c09::c09_group_n%d" % n, tier=tier, funcs=FR, space="all sequences of exactly %d radials x all 256^%d elevation-number patterns" % (n, n), bounds="N = %d, unwind %d" % (n, n + 2), mfs=4096, mem=mem, timeout=to)
for n, ts in ((2, (1, 2)), (3, (1, 2, 3)), (4, (1, 2, 3))):
    for t in ts:
        h("C09", "c09::c09_patterns_n%d_t%d" % (n, t), tier="quick" if n < 4 else "thorough", funcs=FR, space="all %d adjacent-equality patterns of %d radials with concrete labels from table %d ([0,1,2,3] / [255,0,255,0] / [1,2,1,3])" % (2 ** (n - 1), n, t), bounds="N = %d, concrete elevation labels (values symbolic only for N <= 1)" % n, mfs=4096, mem=8, timeout=1500)
h("C09", "c09::c09_merge_1_2", funcs=MG, space="1+2 radials, all azimuth numbers (2^48), any common elevation", bounds="sizes (1,2), unwind 5", mfs=4096, mem=4)
h("C09", "c09::c09_merge_2_2", funcs=MG, space="2+2 radials, all azimuth numbers (2^64)", bounds="sizes (2,2), unwind 6", mfs=4096, mem=6, timeout=1500)
h("C09", "c09::c09_merge_3_2", tier="thorough", funcs=MG, space="3+2 radials, all azimuth numbers (2^80)", bounds="sizes (3,2), unwind 7", mfs=4096, mem=30, timeout=3600)
h("C09", "c09::c09_merge_mismatch_0", funcs=MG, space="all 2^16 elevation pairs, empty sweeps", bounds="unwind 3", mfs=4096, mem=4)
h("C09", "c09::c09_merge_mismatch_1", funcs=MG, space="all 2^16 elevation pairs x one radial each (any azimuth)", bounds="unwind 4", mfs=4096, mem=4, timeout=1200)

# ------------------------------------------------------------------------------------------- C08
prop("C08",
     level_text="Bounded model checking with no bound in play: chrono's date arithmetic on this path is loop-free, so each SAT query covers the accessor's whole domain (65,535 days x 86,400,000 ms, or x 1,440 minutes) at once; the no-panic queries cover every u16/u32 field value.",
     level_note="Trusted: Kani/CBMC; chrono 0.4 as locked in /repo/Cargo.lock is part of the code under check (compiled, not modelled). Oracle: day number from CE, second of day and nanosecond of the returned value, written in the harness.",
     outside="other chrono versions; Debug formatting of the date-time")
for nm, fn, sp in (("msg_header", "MessageHeader::date_time", "ms"), ("drd_header", "digital_radar_data::Header::date_time", "ms"),
                   ("vol_header", "nexrad_data::volume::Header::date_time", "ms")):
    h("C08", "c08::c08_%s_exact" % nm, funcs=[fn, "util::get_datetime", "chrono NaiveDate + Duration, NaiveTime + Duration"], space="all d in 1..=65535 x all t < 86,400,000 ms (other struct bytes free)", bounds="no loop; complete", timeout=1800, mem=12)
    h("C08", "c08::c08_%s_total" % nm, funcs=[fn], space="all day fields x all u32 times", bounds="no loop; complete", timeout=1800, mem=12)
for nm in ("rda_bypass", "rda_clutter", "cfm_header"):
    h("C08", "c08::c08_%s_exact" % nm, funcs=["%s generation date_time" % nm, "util::get_datetime"], space="all d in 1..=65535 x all m < 1440 minutes", bounds="no loop; complete", timeout=1800, mem=12)
h("C08", "c08::c08_rda_total", funcs=["rda_status_data::Message::{bypass_map,clutter_filter_map}_generation_date_time"], space="all u16^4 date/time fields", bounds="no loop; complete", timeout=1800, mem=6)
h("C08", "c08::c08_cfm_header_total", funcs=["clutter_filter_map::Header::date_time"], space="all u16^2", bounds="no loop; complete", timeout=1800, mem=6)

# ------------------------------------------------------------------------------------------- C04
prop("C04",
     level_text="Bounded model checking of each decode entry point on a buffer whose bytes and length are both symbolic (length up to the stated L): no panic, overflow or out-of-bounds on any input, and unwinding assertions show every loop terminates within the bound. Inputs longer than L are outside the claim.",
     level_note="Trusted: Kani/CBMC and Kani's std models (Vec, Cursor, slice Read). alloc::fmt::format stubbed (error text). <[u8;4] as TryFrom<&[u8]>>::try_from replaced by an assertion-checked copy (dead Err arm of chunks_exact). Memory clause: allocation sizes are count*4 and gates*(word/8) with 16/8-bit factors (bounded by 65535*4 and 65535*31) - read off the code, the allocator itself is not modelled.",
     outside="inputs longer than L; stack depth; real time; allocator behaviour")
h("C04", "c04::c04_header", funcs=["decode_message_header"], space="all byte strings of length 0..=40", bounds="L = 40; no loop", mem=10)
h("C04", "c04::c04_rda_status", tier="thorough", funcs=["decode_rda_status_message"], space="all byte strings of length 0..=130", bounds="L = 130", mem=12, mfs=160)
h("C04", "c04::c04_vcp", tier="thorough", funcs=["decode_volume_coverage_pattern"], space="all byte strings of length 0..=168, cut count free in 0..=65535", bounds="L = 168, unwind 5 (<= 3 cuts fit)", mem=16, mfs=200, unwind_is_violation=True, timeout=1800)
h("C04", "c04::c04_clutter_map", tier="probe", funcs=["decode_clutter_filter_map"], space="all byte strings of length 0..=44, segment and zone counts free", bounds="L = 44, unwind 24", mem=16, unwind_is_violation=True, timeout=1800)
h("C04", "c04::c04_type31", tier="probe", funcs=["decode_digital_radar_data", "Message::radial", "GenericDataBlock::new"], space="all byte strings of length 0..=104 with block count <= 2; pointers, names, gates, word size free", bounds="L = 104, blocks <= 2, unwind 12", mem=24, mfs=128, unwind_is_violation=True, timeout=2400)

# ------------------------------------------------------------------------------------------- C02
prop("C02",
     level_text="Bounded model checking of decode_digital_radar_data on well-formed messages whose every non-structural byte is symbolic: each SAT query proves every header and block field equals the big-endian value at its ICD offset for all values at once (floats by bit pattern), that the block lands under the product its name designates and all others are absent, that gate bytes are intact with length gates x word-bytes, and that the reader stops after the block.",
     level_note="Trusted: Kani/CBMC and std models. alloc::fmt::format stubbed; <[u8;4] as TryFrom<&[u8]>>::try_from replaced by an assertion-checked copy. Oracle: ICD 2620002W offsets written out in harness/src/c02.rs.",
     outside="more than 3 blocks in one query; gate counts above 8; overlapping blocks; layouts where a pointer table entry is not 4-byte aligned (irrelevant to the decoder)")
D31 = ["decode_digital_radar_data", "util::deserialize", "GenericDataBlock::new", "DataBlockId::data_block_name"]
h("C02", "c02::c02_header_vol", funcs=D31, space="header(32) + VOL(52): all 2^(8*77) values of the free bytes", bounds="1 block; unwind 8", mfs=128, mem=14, timeout=1500)
h("C02", "c02::c02_elv", funcs=D31, space="header + ELV(12), all free bytes", bounds="1 block; unwind 6", mfs=128, mem=14, timeout=1500)
h("C02", "c02::c02_rad", funcs=D31, space="header + RAD(28), all free bytes", bounds="1 block; unwind 6", mfs=128, mem=14, timeout=1500)
for nm in ("ref", "vel", "sw", "zdr", "phi", "rho", "cfp"):
    h("C02", "c02::c02_%s" % nm, tier="quick" if nm in ("ref", "phi", "cfp") else "thorough", funcs=D31, space="header + moment block %s: all header bytes, gates 0..=3, word size 8|16, all gate bytes" % nm.upper(), bounds="gates <= 3; unwind 8", mfs=128, mem=12, timeout=1500)
for nm in ("ref", "phi"):
    h("C02", "c02::c02_%s_g8" % nm, tier="thorough", funcs=D31, space="header + moment block %s: gates 0..=8, word size 8|16" % nm.upper(), bounds="gates <= 8; unwind 18", mfs=128, mem=20, timeout=3600)
h("C02", "c02::c02_no_blocks", funcs=D31, space="all headers with block count 0", bounds="unwind 3", mfs=128, mem=4)

# ------------------------------------------------------------------------------------------- C11
prop("C11",
     level_text="Bounded model checking: the VCP decoder on messages with k declared cuts (every field byte symbolic) and every accessor on a struct whose raw fields are symbolic, so each scaled/bit-field accessor is decided for all 2^16 (2^8) raw values in one query.",
     level_note="Trusted: Kani/CBMC float bit-blasting. f64::powf replaced by an exact 2^k stub that asserts base 2 and integral k in [-15,0] (CBMC's built-in powf is nondeterministic); alloc::fmt::format stubbed in decoder harnesses. Oracle: ICD offsets / bit positions written in harness/src/c11.rs.",
     outside="4..=51 cuts in one message beyond k = 5 (per-cut code is identical); uom-typed accessors (thin wrappers over the f64 ones)")
VCPF = ["decode_volume_coverage_pattern", "util::deserialize"]
h("C11", "c11::c11_layout_k0", funcs=VCPF, space="all 22-byte headers with count 0", bounds="k = 0", mem=8)
h("C11", "c11::c11_layout_k1", funcs=VCPF, space="all 68-byte messages with count 1", bounds="k = 1", mfs=80, mem=8)
h("C11", "c11::c11_layout_k2", funcs=VCPF, space="all 114-byte messages with count 2", bounds="k = 2", mfs=128, mem=12, timeout=1500)
h("C11", "c11::c11_layout_k3", tier="thorough", funcs=VCPF, space="all 160-byte messages with count 3", bounds="k = 3", mfs=192, mem=16, timeout=2400)
h("C11", "c11::c11_layout_k5", tier="thorough", funcs=VCPF, space="all 252-byte messages with count 5", bounds="k = 5", mfs=256, mem=24, timeout=3600)
h("C11", "c11::c11_count_does_not_fit", funcs=VCPF, space="all 114-byte inputs, declared count free in 0..=65535", bounds="frame of 2 cuts; unwind 5", mfs=128, mem=6, timeout=1800, unwind_is_violation=True)
h("C11", "c11::c11_cut_bits", funcs=["ElevationDataBlock::{super_resolution_control_*, supplemental_data_*, channel_configuration, waveform_type}"], space="all raw field values", bounds="no loop; complete")
h("C11", "c11::c11_cut_thresholds", funcs=["ElevationDataBlock::*_threshold"], space="all 2^16 raw values per threshold", bounds="no loop; complete")
h("C11", "c11::c11_cut_angles", funcs=["elevation_data_block::decode_angle", "ElevationDataBlock::{elevation,sector_n_edge,ebc}_angle_degrees"], space="all 2^16 raw values per angle field", bounds="unwind 15 (13-iteration bit loop)", timeout=1200)
h("C11", "c11::c11_cut_azimuth_rate", funcs=["elevation_data_block::decode_angular_velocity", "ElevationDataBlock::azimuth_rate_degrees_per_second"], space="all 2^16 raw values", bounds="unwind 15", timeout=1200)
h("C11", "c11::c11_header_bits", funcs=["vcp Header::{vcp_sequencing_*, vcp_supplemental_data_*, pattern_type, pulse_width, doppler_velocity_resolution_meters_per_second}"], space="all raw field values", bounds="no loop; complete")

# ------------------------------------------------------------------------------------------- C12
prop("C12",
     level_text="Bounded model checking: the status decoder on all 120-byte messages (every halfword symbolic) and every accessor on a message whose relevant halfword is symbolic, so coded fields, flag bits, scaled values and the 0..=65535 alarm lookup are each decided for all 2^16 values in one query.",
     level_note="Trusted: Kani/CBMC. Oracle: the value->meaning table of each field's doc comment (ICD Table IV) transcribed in harness/src/c12.rs; for data_transmission_enabled and rda_alarm_summary (doc tables self-contradictory) only 'one bit per accessor, consecutive, documented order' is asserted. rda_status code 64 (second 'Spare') and VCP raw i16::MIN are left unconstrained.",
     outside="Debug formatting; the static message text of alarm definitions; undocumented codes")
RDAF = ["decode_rda_status_message", "util::deserialize"]
h("C12", "c12::c12_layout", funcs=RDAF, space="all 2^960 120-byte messages", bounds="no data-dependent loop; unwind 20 for the harness's 18-spare loop", mfs=128, mem=6, timeout=1500)
h("C12", "c12::c12_coded_a", funcs=["rda_status_data::Message::{rda_status,operability_status,control_status,auxiliary_power_generator_state,rda_control_authorization,operational_mode,super_resolution_status}"], space="all 2^16 values per coded halfword (asserted on documented codes)", bounds="complete", mem=6, timeout=1500)
h("C12", "c12::c12_coded_b", funcs=["rda_status_data::Message::{command_acknowledgement,spot_blanking_status,transition_power_source_status,rms_control_status,performance_check_status,controlling_channel}"], space="all 2^16 values per coded halfword", bounds="complete", mem=6, timeout=1500)
h("C12", "c12::c12_flags", funcs=["ScanDataFlags::*"], space="all 2^16 flag words", bounds="complete", mem=6)
h("C12", "c12::c12_flags_structural", funcs=["DataTransmissionEnabled::*", "alarm::Summary::*"], space="all 2^16 flag words", bounds="complete", mem=6)
h("C12", "c12::c12_clutter_mitigation", funcs=["Message::clutter_mitigation_decision_status"], space="all values 0..=63", bounds="unwind 8", mem=6)
h("C12", "c12::c12_scaled", funcs=["Message::{horizontal_reflectivity_calibration_correction,rda_build_number,volume_coverage_pattern}", "VolumeCoveragePatternNumber::*"], space="all 2^16 raw values", bounds="complete", mem=6, timeout=1500)
h("C12", "c12::c12_alarm_lookup_1023", funcs=["alarm::get_alarm_message"], space="all codes 0..=1023", bounds="complete on the stated range", mem=12, timeout=1800)
h("C12", "c12::c12_alarm_lookup_high_bits", funcs=["alarm::get_alarm_message"], space="all codes low | (1 << k), low <= 1023, k in 10..=15", bounds="complete on the stated set", mem=12, timeout=1800)
h("C12", "c12::c12_alarm_lookup_all", tier="thorough", funcs=["alarm::get_alarm_message"], space="all 2^16 codes", bounds="complete", mem=16, timeout=3600)
h("C12", "c12::c12_alarm_messages_order", funcs=["Message::alarm_messages", "alarm::get_alarm_message"], space="two concrete 14-code layouts (zeros leading/trailing/between, a repeated code)", bounds="unwind 16", mem=10, timeout=1500)
h("C12", "c12::c12_alarm_messages_symbolic_code", tier="thorough", funcs=["Message::alarm_messages", "alarm::get_alarm_message"], space="one symbolic code 0..=800 between two concrete ones", bounds="unwind 16", mem=16, timeout=3600)

# ------------------------------------------------------------------------------------------- C06
prop("C06",
     level_text="Bounded model checking of the container entry points on buffers whose bytes and length are symbolic (every length 0..=L, L between 12 and 40 per entry point, which covers every boundary the code indexes by: 3, 6, 24 bytes and a 4-byte prefix): no panic/overflow/out-of-bounds, loops end (unwinding assertions).",
     level_note="Trusted: Kani/CBMC and std models of Vec/slice. alloc::fmt::format stubbed where an error value is built. Not encoded: libbz2 (decompress of a record that *is* compressed), Debug formatting machinery, decode_messages on record payloads (that is C04/C03).",
     outside="lengths above L; corrupted bzip2 streams (FFI); core::fmt; File::scan and Record::messages beyond the compressed/uncompressed gate (decode path: C03/C04)")
h("C06", "c06::c06_file_records", funcs=["volume::File::records", "volume::split_compressed_records"], space="all byte strings of length 0..=40", bounds="L = 40, unwind 7 (<= 4 records)", mem=4, unwind_is_violation=True, timeout=1500)
h("C06", "c06::c06_split", funcs=["volume::split_compressed_records"], space="all byte strings of length 0..=20", bounds="L = 20, unwind 7", mem=4, unwind_is_violation=True, timeout=1500)
h("C06", "c06::c06_record_compressed", funcs=["volume::Record::{from_slice,new,data,compressed}"], space="all byte strings of length 0..=12", bounds="L = 12", mem=4)
h("C06", "c06::c06_chunk_new", funcs=["aws::realtime::Chunk::{new,data}"], space="all byte strings of length 0..=12", bounds="L = 12", mem=4)
h("C06", "c06::c06_file_header", funcs=["volume::File::header", "volume::Header::deserialize"], space="all byte strings of length 0..=30", bounds="L = 30", mem=4)
h("C06", "c06::c06_compressed_record_not_decoded", funcs=["volume::Record::{messages,compressed}"], space="all 12-byte records with the 'BZ' magic", bounds="magic bytes concrete; only the gate before decoding", mem=8)
h("C06", "c06::c06_uncompressed_record_not_decompressed", funcs=["volume::Record::{decompress,compressed}"], space="all 5-byte records; all 12-byte records whose byte 4 is 'X'", bounds="only the gate before FFI", mem=8)

# ------------------------------------------------------------------------------------------- C05
prop("C05",
     level_text="Bounded model checking of File::records on well-formed files built from symbolic size prefixes (signed, any payload bytes) and of the header accessors on all 24-byte headers: tiling, order, byte identity and the 'BZ' predicate are decided for every file within the record-count/size bound.",
     level_note="Trusted: Kani/CBMC. The bzip2 round-trip clause (decompress(compress(p)) == p) is NOT claimed: libbz2 is C code behind FFI and its compression loops are outside solver reach; the error gates around it are checked in C06.",
     outside="bzip2 round-trip; more than 3 records or record payloads above 8 bytes; non-ASCII but valid UTF-8 header strings are only required to echo their bytes")
for k, mem, to in ((0, 8, 600), (1, 10, 900), (2, 12, 1500)):
    h("C05", "c05::c05_tiling_k%d" % k, funcs=["volume::File::records", "volume::split_compressed_records", "Record::data"], space="all files of %d records, |size| <= 4, any sign, any bytes" % k, bounds="K = %d, unwind 10" % k, mem=mem, timeout=to)
h("C05", "c05::c05_tiling_k3", tier="thorough", funcs=["volume::File::records", "volume::split_compressed_records"], space="all files of 3 records, |size| <= 8", bounds="K = 3, unwind 14", mem=24, timeout=3600)
h("C05", "c05::c05_header_fields_ascii", funcs=["volume::Header::{deserialize,tape_filename,extension_number,icao_of_radar,date_time}"], space="all 24-byte headers whose three text fields are ASCII; date/time words free", bounds="unwind 14", mem=8, timeout=1800)
h("C05", "c05::c05_header_fields", tier="probe", funcs=["volume::Header::{deserialize,tape_filename,extension_number,icao_of_radar,date_time}"], space="all 2^192 headers", bounds="unwind 12 (9-byte UTF-8 validation)", mem=8, timeout=1800)

# ------------------------------------------------------------------------------------------- C07
prop("C07",
     level_text="Bounded model checking of Message::radial / into_radial, GenericDataBlock::decoded_values and MomentData::values: header mapping for all headers (in-range date/time), moment routing for 11 concrete presence patterns (all, each single, none, dual-pol only and its complement), the value rule for all 256 raw bytes over a listed set of scale/offset pairs, plus an SMT (QF_FP) equivalence of the two value formulas' MIR for all finite f32 scale/offset (engine Z).",
     level_note="Trusted: Kani/CBMC float bit-blasting; z3/cvc5 QF_FP for the Z query. The K value harness ranges over ten listed (scale, offset) pairs because symbolic f32 division does not terminate in CBMC; the Z query covers all finite pairs. 16-bit moments were a genuine defect (one value per byte), repaired in /repo 66d1d94 and now covered by c07_gate_count.",
     outside="more than 2 gates per moment in one query; word sizes other than 8 and 16; NaN angles in the equality of the two conversions (PartialEq on f32)")
h("C07", "c07::c07_header_mapping", funcs=["digital_radar_data::Message::{radial,into_radial}", "Header::{date_time,radial_status}", "Radial::new + accessors"], space="all headers with non-NaN angles (date/time concrete)", bounds="no loop; complete", mem=10, timeout=1500)
h("C07", "c07::c07_collection_time_dates", funcs=["digital_radar_data::Message::radial", "Header::date_time", "DateTime::timestamp_millis"], space="all dates 1..=65535 at time 0", bounds="no loop", mem=8, timeout=1800)
h("C07", "c07::c07_collection_time_times", funcs=["digital_radar_data::Message::radial", "Header::date_time", "DateTime::timestamp_millis"], space="all times < 86,400,000 ms on day 19000", bounds="no loop", mem=8, timeout=1800)
for nm, sp in (("all", "all seven moments present"), ("single", "each single moment alone, and none"), ("dualpol_only", "ZDR+PHI+RHO only, and the complement")):
    h("C07", "c07::c07_moment_routing_%s" % nm, funcs=["Message::{radial,into_radial}", "GenericDataBlock::{moment_data,into_moment_data}", "MomentData::values"], space="presence pattern: %s; header symbolic, 1 gate per moment with distinct raw/scale/offset" % sp, bounds="concrete presence patterns; unwind 9", mfs=2048, mem=12, timeout=1800)
h("C07", "c07::c07_values_levels_agree", funcs=["GenericDataBlock::decoded_values", "MomentData::values"], space="all 256 raw bytes x 10 listed (scale, offset) pairs", bounds="1 gate; unwind 4", mem=10, timeout=1800)
for w in (8, 16):
    h("C07", "c07::c07_gate_count_word%d" % w, funcs=["GenericDataBlock::{decoded_values,moment_data}", "MomentData::values"], space="%s gates, %d-bit words, any data bytes" % ("exactly 2" if w == 8 else "0..=2", w), bounds="gates <= 2; unwind 6", mfs=256, mem=12, timeout=1800)
h("C07", "c07::c07_gate_count_word16_consuming", funcs=["GenericDataBlock::into_moment_data", "MomentData::values"], space="2 gates, 16-bit words, any 4 data bytes", bounds="unwind 6", mem=8, timeout=1200)

# ------------------------------------------------------------------------------------------- C19
prop("C19",
     level_text="Bounded model checking of get_elevation_from_chunk for all cut lists up to 8 (quick) / 32 (thorough) cuts with symbolic resolution bits and all sequences 1..=200 against an independent cumulative-sum oracle (pointer identity of the returned cut), and of estimate_next_chunk_time without history for every previous sequence (sequence() stubbed by an arbitrary value) and symbolic waveform/channel codes at a concrete upload time.",
     level_note="Trusted: Kani/CBMC; chrono compiled, not modelled. The history clause (real ChunkTimingStats: std HashMap + VecDeque, RandomState::new stubbed to fixed keys) was tried (c19_estimate_history, 12 add_timing calls) and did not finish in 60 min; it is not claimed.",
     outside="the history-based estimate and ChunkTimingStats (hashbrown under CBMC: no verdict in 60 min); symbolic upload times; cut lists longer than 32; previous chunk without upload time (falls back to Utc::now())")
h("C19", "c19::c19_elevation_map_le4", funcs=["realtime::get_elevation_from_chunk", "ElevationDataBlock::super_resolution_control_half_degree_azimuth"], space="all cut lists of length 0..=4 x resolution bits x sequences 1..=200", bounds="L <= 4; unwind 6", mem=4)
h("C19", "c19::c19_elevation_map_le8", funcs=["realtime::get_elevation_from_chunk"], space="all cut lists of length 0..=8 x sequences 1..=200", bounds="L <= 8; unwind 10", mem=4, timeout=1500)
h("C19", "c19::c19_elevation_map_le32", tier="thorough", funcs=["realtime::get_elevation_from_chunk"], space="all cut lists of length 0..=32 x sequences 1..=200", bounds="L <= 32; unwind 34", mem=24, timeout=3600)
h("C19", "c19::c19_estimate_default", funcs=["realtime::estimate_next_chunk_time", "get_default_wait_time", "ChunkIdentifier::{sequence,date_time}", "get_elevation_from_chunk"], space="every previous sequence (any usize, or unparsable) x 2 cuts with symbolic waveform/channel codes; upload time concrete", bounds="2 cuts; ChunkIdentifier::sequence stubbed by an arbitrary value (its parser is C16)", mem=16, timeout=2400)

# ------------------------------------------------------------------------------------------- C16
prop("C16",
     level_text="Bounded model checking of the chunk-name parsers and of the successor function on (volume, sequence): the type letter (all ASCII) and name prefix, the successor arithmetic for every sequence value (sequence() stubbed by an arbitrary value) and every volume 1..=999, and the archive-name slicing on strings up to 24 bytes with one multi-byte character anywhere.",
     level_note="Trusted: Kani/CBMC and std's str::split/parse compiled as is. alloc::fmt::format is stubbed to String::new(), therefore the successor's *name* (format!(\"{}-{:03}-{}\")) and with_sequence are NOT covered here; the cycle over 999 x 55 positions follows from the checked one-step function only for the (volume, sequence-class) part. chrono's format-string parser (archive date_time) is outside reach.",
     outside="ChunkIdentifier::sequence itself (str::split('-').nth(2) + parse::<usize>() exhausts CBMC even on a concrete name: 10 GB, no verdict), successor name formatting and with_sequence (core::fmt), chrono's strftime parser (stubbed by 'any result'), names longer than 24 bytes")
CI = ["realtime::ChunkIdentifier::{new,sequence,chunk_type,name_prefix,next_chunk}", "str::split / str::parse::<usize> (std)"]

# ------------------------------------------------------------------------------------------- C15
prop("C15",
     level_text="Bounded model checking of the real rotated search (crate-private, reached through the verif-hooks wrapper) on an in-memory bucket: for each directory count N every shape (newest position p, populated count c; N x N + 1 of them, concrete because a symbolic split of the search's VecDeque state is beyond CBMC) is run with SYMBOLIC upload times (any strictly increasing u32 values along the populated run), asserting the result is the newest populated directory (none when empty) and that the number of listing requests stays within N + ceil(log2 N) + 2.",
     level_note="Trusted: Kani/CBMC, Kani's model of async state machines polled once with a no-op waker (futures are ready immediately), VecDeque from std compiled as is. get_latest_volume (S3 listing closure, element count 998, +1 index mapping) is NOT encoded.",
     outside="N = 999 (production size) and any N above the tier bound; get_latest_volume itself; listings that fail or block")
for n, tier, mem, to in ((1, "quick", 8, 900), (2, "quick", 10, 900), (3, "quick", 12, 1200), (4, "quick", 16, 1800), (5, "thorough", 24, 3600), (6, "thorough", 36, 5400)):
    h("C15", "c15::c15_latest_n%d" % n, tier=tier, funcs=["aws::realtime::search::search", "search::should_search_right"], space="all %d bucket shapes for %d directories x all strictly increasing u32 upload times" % (n * n + 1, n), bounds="N = %d; unwind %d" % (n, 6 + 2 * n), mfs=2048, mem=mem, timeout=to)

# ------------------------------------------------------------------------------------------- C03
prop("C03",
     level_text="Bounded model checking of decode_messages on streams of one and two messages: 2432-byte frames of concrete representative type codes (2, 5, 15; thorough: 0, 33, 255 and all 253 opaque codes symbolically) and minimal contiguous type-31 messages, with symbolic message headers, trailing fragments and truncation points; asserts count, order, header identity, contents kind and error-vs-shorter-list behaviour.",
     level_note="Trusted: Kani/CBMC; alloc::fmt::format stubbed; frame bodies are concrete zeros (a valid status message and a valid 0-cut VCP) because the body of an opaque type is never interpreted - body field fidelity is C11/C12.",
     outside="streams longer than 2 messages; symbolic type codes in the quick tier; frames of types 2/5 with non-zero bodies (C11/C12); Record::messages (one extra call)")
DM = ["decode_messages", "decode_message_header", "decode_message_contents"]
for nm, sp in (("c03_frame_t15_fragment27", "type 15 + trailing fragment of 27 symbolic bytes"), ("c03_frame_t15_fragment1", "type 15 + 1 trailing byte"), ("c03_frame_t2_fragment13", "type 2 (status) + 13-byte fragment"), ("c03_frame_t5", "type 5 (VCP)"),
               ("c03_frame_t0", "type 0"), ("c03_frame_t33_fragment27", "type 33 + 27-byte fragment"), ("c03_frame_t255", "type 255")):
    h("C03", "c03::%s" % nm, tier="quick" if nm in ("c03_frame_t15_fragment27", "c03_frame_t15_fragment1", "c03_frame_t5") else "thorough", funcs=DM, space="one 2432-byte frame, %s; message header symbolic" % sp, bounds="1 message, concrete type code; unwind 30", mfs=2600, mem=16, timeout=1800)
h("C03", "c03::c03_one_opaque_frame_any_type", tier="probe", funcs=DM, space="one frame, all 253 opaque type codes symbolic", bounds="1 message; unwind 30", mfs=2600, mem=24, timeout=7200)
for nm, sp in (("c03_frame15_then_type31", "[frame 15][type-31 with one ELV block]"), ("c03_type31_then_frame15", "[type-31][frame 15]"), ("c03_type31_then_frame2", "[type-31][frame 2]")):
    h("C03", "c03::%s" % nm, tier="quick" if nm != "c03_type31_then_frame2" else "thorough", funcs=DM + ["decode_digital_radar_data"], space="%s; both headers and the elevation number symbolic" % sp, bounds="2 messages, concrete frame type; unwind 30", mfs=2600, mem=20, timeout=2400)
h("C03", "c03::c03_two_frames_same_type", funcs=DM, space="two type-15 frames, both headers symbolic (any segment count/number)", bounds="2 messages; unwind 30", mfs=5000, mem=20, timeout=2400)

# ------------------------------------------------------------------------------------------- C13
prop("C13",
     level_text="Bounded model checking of decode_clutter_filter_map. Thorough tier: well-formed bodies with one elevation segment of 360 azimuth segments (zone counts 2, 1, 2 at azimuths 0, 1, 359, zone values and date/time symbolic): numbering, declared counts, (op code, end range) pairs in order, op-code meaning; and every cut point inside the last zone list is an error. Quick tier (the 360-iteration body costs 25-40 min of symbolic execution): the zero-segment body and bodies cut at concrete points 5..40 bytes for every declared segment count 1..=255 are errors.",
     level_note="Trusted: Kani/CBMC. Zone *counts* are concrete per harness instance so that byte offsets stay concrete; zone values, date, time and (in the truncation harnesses) the segment count are symbolic. --max-field-sensitivity-array-size 1024: above the input buffer, below the 11,520-byte Vec<AzimuthSegment> (with 16384 the same query does not finish in 3 h). The date-time *conversion* is C08.",
     outside="more than one elevation segment (c13_structure_s2: probe tier, 720 iterations); other placements of non-empty azimuths; zone counts above 2; cut points between byte 40 and the last zone list")
CFM = ["clutter_filter_map::decode_clutter_filter_map", "util::deserialize", "RangeZone::op_code"]
h("C13", "c13::c13_structure_s0", tier="quick", funcs=CFM, space="all headers with 0 segments", bounds="S = 0", mem=8)
h("C13", "c13::c13_structure_s1", tier="thorough", funcs=CFM, space="1 segment x 360 azimuths; zones (2,1,2) at azimuths 0,1,359 with symbolic values", bounds="S = 1; unwind 362", mfs=1024, mem=44, timeout=9000)
h("C13", "c13::c13_structure_s2", tier="probe", funcs=CFM, space="2 segments x 360 azimuths; zones (1,0,2)", bounds="S = 2; unwind 362", mfs=16384, mem=40, timeout=21600)
h("C13", "c13::c13_truncated", tier="probe", funcs=CFM, space="one declared segment, zero zone counts, every cut point 0..=726", bounds="unwind 362", mfs=16384, mem=24, timeout=10800, unwind_is_violation=True)
h("C04", "c04::c04_type31_one_block_free", tier="probe", funcs=["decode_digital_radar_data", "Message::radial", "GenericDataBlock::new"], space="all 2^(8*74) 76-byte inputs with block count 1: pointer, block type/name, gates, word size free", bounds="fixed length 76, 1 block; unwind 12", mem=16, mfs=128, unwind_is_violation=True, timeout=2400)
h("C07", "c07::c07_zero_gate_moment_stays_present", funcs=["Message::radial", "Message::into_radial", "GenericDataBlock::{moment_data,into_moment_data}", "MomentData::values"], space="REF (0 gates, 8-bit), VEL (1 gate, any raw byte), PHI (0 gates, 16-bit) present; other header fields symbolic", bounds="concrete presence pattern; unwind 9", mfs=4096, mem=10, timeout=1800)
h("C07", "c07::c07_collection_time_beyond_24h_window", funcs=["Message::radial", "digital_radar_data::Header::date_time", "util::get_datetime"], space="time-of-day field in 86,400,000..=86,465,535 on a fixed date", bounds="no loop; complete over the stated window", mem=12, timeout=1800)
h("C07", "c07::c07_collection_time_beyond_24h", tier="thorough", funcs=["Message::radial", "digital_radar_data::Header::date_time", "util::get_datetime"], space="every time-of-day field in 86,400,000..=u32::MAX on a fixed date", bounds="no loop; complete over the stated domain", mem=12, timeout=1800)
h("C07", "z::c07_value_formula", kind="z", script="smt/z_c07.py", funcs=["GenericDataBlock::scaled_value (MIR)", "MomentData::value_of (MIR)"], space="all 2^16 raw gate values x all finite f32 scale x all finite f32 offset (levels: every f32 bit pattern)", bounds="loop-free closures: no bound; QF_FP, z3 and cvc5 must agree", mem=6, timeout=1200)
for nm, sp in (("c04_type31_unknown_name", "unknown ASCII block name XYZ"), ("c04_type31_moment_free_sizes", "moment block REF"), ("c04_type31_non_utf8_name", "non-UTF-8 block name ff fe 41")):
    h("C04", "c04::%s" % nm, funcs=["decode_digital_radar_data", "Message::radial", "GenericDataBlock::new"], space="76-byte message, one block at offset 36 (%s): block type, gate count, word size, scale, offset free; other bytes zero" % sp, bounds="fixed length 76, concrete name; unwind 12", mem=12, mfs=128, unwind_is_violation=True, timeout=1800)

for nm, sp, tier in (("c03_cut_opaque_body_at_0", "frame 15 + header of type 13, no body byte", "quick"), ("c03_cut_opaque_body_at_1200", "frame 15 + header of type 13 + 1200 body bytes", "quick"),
                     ("c03_cut_opaque_body_at_2403", "frame 15 + header of type 7 + 2403 of 2404 body bytes", "quick"), ("c03_cut_status_body_at_57", "frame 15 + header of type 2 + 57 body bytes", "thorough")):
    h("C03", "c03::%s" % nm, tier=tier, funcs=DM, space="%s; both headers symbolic" % sp, bounds="concrete cut point; unwind 30", mfs=5000, mem=16, timeout=1800)

# ------------------------------------------------------------------------------------------- C01
prop("C01",
     level_text="Hard-bounded model checking of the whole File::scan pipeline (records -> split -> Record::compressed/decompress -> Record::messages -> decode_messages -> decode_digital_radar_data -> into_radial -> Sweep::from_radials -> Scan::new) on volumes of one LDM record holding one type-31 radial (symbolic azimuth/elevation numbers, VCP number, date/time, volume header) with or without a metadata frame in front, and on a volume without a VOL block.",
     level_note="Trusted: Kani/CBMC. libbz2 is replaced by the identity codec 'strip the 4-byte prefix' (Record::decompress stub; records are laid out so that compressed() is really true); alloc::fmt::format and the [u8;4] try_from stubs as in C02. Volumes with two or more radials are outside reach (Vec<Radial> of >= 2 exhausts CBMC), so multi-radial grouping is claimed only in C09 at its bound.",
     outside="bzip2 itself; two or more radials or records; moment blocks inside a volume (C02/C07); longer elevation sequences (C09)")
SC = ["volume::File::scan", "File::records", "split_compressed_records", "Record::{compressed,messages}", "decode_messages", "decode_digital_radar_data", "Message::into_radial", "Sweep::from_radials", "Scan::new"]
h("C01", "c01::c01_one_radial", tier="probe", funcs=SC, space="1 record, 1 radial: all azimuth/elevation numbers, VCP numbers, in-range date/time, volume header bytes", bounds="1 record, 1 radial, VOL only; unwind 8", mfs=4096, mem=24, timeout=3000)
h("C01", "c01::c01_metadata_then_radial", tier="probe", funcs=SC, space="1 record: RDA status frame (2432 bytes) then 1 radial", bounds="1 record, 1 frame + 1 radial; unwind 8", mfs=4096, mem=30, timeout=3600)
h("C01", "c01::c01_no_vol_block", tier="probe", funcs=SC, space="1 record, 1 radial without any data block", bounds="unwind 8", mfs=4096, mem=24, timeout=3000)

# ------------------------------------------------------------------------------------------- C14
prop("C14",
     level_text="Bounded model checking of summarize::messages on message lists with concrete message kinds, against an independent single-pass reference written in the harness (tiling of 0..n, message_count == index span, maximal runs, singleton status/VCP groups, continuation flag, group type, first/last azimuth and time, collection-time range, empty VCP set). Two families: (a) kind patterns R V R (quick) and R S R (thorough) with all three elevation numbers symbolic (every continuation outcome in one query); (b) lists of 4-6 messages with concrete kinds, elevation labels and type codes and symbolic azimuth angles (the solver executes the representative grouping and decides the data flow). Thorough tier adds per-group data-type counts and the VCP set on two radials with symbolic elevation numbers.",
     level_note="Trusted: Kani/CBMC. std::hash::RandomState::new stubbed to fixed SipHash keys (the real one calls the OS); alloc::fmt::format stubbed, so the strings inside RDAStatusInfo/VCPInfo are empty and not compared. Times of day are concrete and non-monotone (chrono on symbolic instants is C08's subject). A symbolic elevation equality that decides whether a group CONTINUES (pattern R R) exhausts 30 GB in CBMC's propositional reduction, hence family (b) uses concrete labels. --max-field-sensitivity-array-size 32768 (the Vec<Message> buffer must stay field-sensitive).",
     outside="lists longer than 6; grouping decided by symbolic elevation numbers or symbolic type codes; text of status/VCP info; messages at epoch 0")
SUMF = ["summarize::messages", "summarize::rda::extract_rda_status_info", "summarize::vcp::extract_vcp_info", "MessageHeader::{message_type,date_time}"]
for nm, sp, tier in (("c14_pat_rsr", "radial, status, radial: all 256^3 elevation numbers, all non-NaN azimuth angles", "thorough"),
                     ("c14_pat_rvr", "radial, VCP, radial: all 256^3 elevation numbers, all non-NaN azimuth angles", "quick"),
                     ("c14_pat_ssv", "status, status, VCP (two status decodes: peaks above 20 GB)", "probe"),
                     ("c14_lab_r1r2r1r1", "radials with elevation labels 1,2,1,1 (the LAST group has two members and is a continuation); all non-NaN azimuth angles", "quick"),
                     ("c14_lab_r1r1r2r1", "radials with elevation labels 1,1,2,1; all non-NaN azimuth angles", "thorough"),
                     ("c14_lab_r1o13o13r1", "radial(1), other(13), other(13), radial(1); all non-NaN azimuth angles", "quick"),
                     ("c14_lab_sr3r3v", "status, radial(3), radial(3), VCP; all non-NaN azimuth angles", "thorough"),
                     ("c14_lab_o7o9r0r0", "other(7), other(9), radial(0), radial(0); all non-NaN azimuth angles", "thorough"),
                     ("c14_lab_r2r2r2sr2r5", "radial(2) x3, status, radial(2), radial(5); all non-NaN azimuth angles", "thorough"),
                     ("c14_pat_rrr", "three radials, all 256^3 elevation numbers", "probe"),
                     ("c14_pat_rr", "two radials, all 256^2 elevation numbers (out of 30 GB in propositional reduction)", "probe"),
                     ("c14_data_counts_same_elevation", "two radials of elevation 3 (REF+VEL+VOL(212); REF+VOL(35)): per-group data-type counts and the VCP set", "probe"),
                     ("c14_data_counts_two_elevations", "two radials of elevations 3 and 4 (REF+VEL+VOL(212); REF): per-group data-type counts and the VCP set", "probe"),
                     ("c14_data_counts_and_vcp_set", "two radials (REF+VEL+VOL(212); REF and optionally VOL(35)), both elevation numbers symbolic: per-group data-type counts and the VCP set", "probe")):
    h("C14", "c14::%s" % nm, tier=tier, funcs=SUMF, space=sp, bounds="concrete kinds; N = %d; unwind 8-40" % (3 if "pat_r" in nm or "ssv" in nm else 2 if "data" in nm else 6 if "r2r2r2" in nm else 4), mfs=32768, mem=20, timeout=2400)
for n, tier, mem, to in ((0, "probe", 8, 900), (1, "probe", 16, 1800), (2, "probe", 24, 2400), (3, "probe", 40, 7200)):
    h("C14", "c14::c14_summary_n%d" % n, tier=tier, funcs=["summarize::messages", "summarize::rda::extract_rda_status_info", "summarize::vcp::extract_vcp_info", "MessageHeader::{message_type,date_time}"], space="all lists of %d messages: kinds^%d x elevation numbers x opaque type codes; concrete non-monotone times" % (n, n), bounds="N = %d" % n, mem=mem, timeout=to, mfs=4096)
h("C19", "c19::c19_estimate_default_real_parser", funcs=["realtime::estimate_next_chunk_time", "ChunkIdentifier::sequence (real)", "get_elevation_from_chunk"], space="every three-digit previous sequence 000..=999 x waveform/channel codes of two cuts (2^32), concrete upload time", bounds="two cuts; unwind 24", mem=12, timeout=1800)
h("C19", "c19::c19_estimate_history", tier="probe", funcs=["realtime::estimate_next_chunk_time", "ChunkTimingStats::{new,add_timing,get_average_timing,get_average_attempts}", "std HashMap/VecDeque"], space="11 samples under one key (durations 0..=60000 ms, attempts 1..=5, all symbolic) + 1 sample under another key", bounds="exactly 11+1 recorded samples; unwind 24", mfs=4096, mem=24, timeout=10800)
h("C13", "c13::c13_truncated_last_zones", tier="probe", funcs=CFM, space="one segment whose azimuth 359 declares two zones; cut at 726..=734", bounds="unwind 362", mfs=1024, mem=24, timeout=7200, unwind_is_violation=True)
h("C04", "c04::c04_vcp_fixed_frame", funcs=["decode_volume_coverage_pattern"], space="all 2^(8*114) inputs of 114 bytes", bounds="fixed length; unwind 5", mfs=128, mem=12, unwind_is_violation=True, timeout=1800)
h("C04", "c04::c04_messages_unknown_block", funcs=["decode_messages", "decode_message_header", "decode_message_contents", "decode_digital_radar_data"], space="76-byte stream: one type-31 message with the unknown block name XYZ; free size fields of the message header", bounds="fixed length 76; unwind 12", mfs=128, mem=16, unwind_is_violation=True, timeout=1800)
h("C04", "c04::c04_messages_unknown_block_size0", funcs=["decode_messages", "decode_message_header", "decode_message_contents", "decode_digital_radar_data"], space="76-byte stream: one type-31 message with the unknown block name XYZ; size fields concrete 0, channel/sequence/date/time bytes free", bounds="fixed length 76; unwind 6 (a loop that makes no progress fails the unwinding assertion)", mfs=128, mem=16, unwind_is_violation=True, timeout=1800)
h("C03", "c03::c03_type31_odd_length_then_frame15", funcs=DM + ["decode_digital_radar_data"], space="95-byte type-31 message (one 8-bit REF moment, 3 gates; symbolic header, elevation number, gate bytes) followed by a type-15 frame with a concrete header", bounds="2 messages; odd message length; unwind 30", mfs=5000, mem=16, timeout=1800)
h("C03", "c03::c03_type31_then_frame15_concrete_tail", funcs=DM, space="type-31 message (symbolic header, elevation number) followed by a type-15 frame whose header is concrete", bounds="2 messages; concrete second header; unwind 30", mfs=5000, mem=16, timeout=1800)
h("C01", "c01::c01_two_radials_same_elevation", tier="probe", funcs=SC, space="1 record, 2 radials of elevation 1, each with a VOL block: azimuth numbers, VCP numbers, times symbolic", bounds="2 radials, concrete elevation numbers (1,1); unwind 8", mfs=4096, mem=30, timeout=3600)
h("C01", "c01::c01_two_radials_two_elevations", tier="probe", funcs=SC, space="1 record, 2 radials of elevations 1 and 2, each with a VOL block", bounds="2 radials, concrete elevation numbers (1,2); unwind 8", mfs=4096, mem=30, timeout=3600)
h("C16", "c16::c16_parse_concrete", tier="probe", funcs=CI, space="8 concrete names (sequence fields 001, 014, 054, 055, 056, 999, 0-4, 0a4)", bounds="concrete inputs; unwind 24", mem=10, timeout=1800)
h("C16", "c16::c16_parse_letter", funcs=CI, space="all 128 ASCII type letters", bounds="unwind 24", mem=10, timeout=1800)
h("C16", "c16::c16_successor_volume", funcs=["realtime::ChunkIdentifier::next_chunk", "VolumeIndex"], space="every sequence value >= 55 (sequence() stubbed by an arbitrary value) x volumes 1..=999", bounds="unwind 24", mem=10, timeout=1800)
h("C16", "c16::c16_successor_sequence", funcs=["realtime::ChunkIdentifier::next_chunk"], space="every sequence value < 55 or unparsable x volumes 1..=999", bounds="unwind 24; name text stubbed", mem=10, timeout=1800)
MC = "core::slice::memchr::{memchr,memrchr}->naive byte loop"
h("C16", "c16::c16_sequence_digits", funcs=CI + ["ChunkIdentifier::sequence (real: str::split + parse::<usize>)"], space="all 1000 three-digit sequence fields", bounds="21-byte name; unwind 24", mem=10, timeout=1800, stubs=[MC])
h("C16", "c16::c16_sequence_field_ascii", funcs=CI + ["ChunkIdentifier::sequence (real)"], space="all 2^21 three-byte ASCII sequence fields (digits, signs, dashes, letters)", bounds="21-byte name; unwind 24", mem=12, timeout=1800, stubs=[MC])
h("C16", "c16::c16_chunk_name_total", tier="probe", funcs=["ChunkIdentifier::{new,sequence,chunk_type}"], space="all names of 0..=24 bytes: free ASCII with one 2-byte character at any position", bounds="L = 24; unwind 28", mem=16, timeout=1800, stubs=[MC])
h("C16", "c16::c16_successor_real_parser", funcs=["ChunkIdentifier::{sequence,next_chunk}", "VolumeIndex"], space="all 1000 three-digit sequences x volumes 1..=999 on the real parser", bounds="unwind 24; successor name text stubbed", mem=12, timeout=1800, stubs=[MC])
for nm, sf in (("none", "(none)"), ("gz", ".gz"), ("v06", "V06"), ("us_v06", "_V06")):
    h("C16", "c16::c16_archive_suffix_%s" % nm, funcs=["archive::Identifier::{new,date_time}"], space="KTLX + all valid 8 date digits + '_' + all valid 6 time digits + concrete suffix %s" % sf, bounds="concrete site and suffix; chrono parsers replaced by recorders; unwind 28", mem=12, timeout=1800)
h("C16", "c16::c16_successor_name_text", tier="probe", funcs=["ChunkIdentifier::next_chunk", "core::fmt (real, not stubbed)"], space="every three-digit sequence below 55: successor name text", bounds="unwind 24; no verdict in 30 min (core::fmt)", mem=16, timeout=1800, stubs=[MC])
h("C16", "c16::c16_archive_name_wellformed", funcs=["archive::Identifier::{new,site,date_time}"], space="all names SSSS + 8 date digits + '_' + 6 time digits + any ASCII suffix of 0..=5 bytes (valid calendar digits)", bounds="L = 19..=24; chrono's NaiveDate/NaiveTime::parse_from_str replaced by recorders that accept exactly 8 / 6 digits; unwind 28", mem=12, timeout=1800)
for t, k in ((0, None), (1, None), (2, None), (3, None), (4, None), (5, None), (5, 2), (5, 3), (3, 1)):
    h("C16", "c16::c16_chunk_name_tail%d%s" % (t, "_mb%d" % k if k is not None else ""), tier="thorough" if (t, k) in ((4, None), (5, 3), (3, 1)) else "quick", funcs=["ChunkIdentifier::{new,sequence,chunk_type}"], space="names '20240813-123330-' + %d free ASCII bytes%s" % (t, " with a two-byte character at tail byte %d" % k if k is not None else ""), bounds="fixed length %d; unwind 28" % (16 + t), mem=16, timeout=1800, stubs=[MC])
h("C16", "c16::c16_archive_name_total", funcs=["archive::Identifier::{new,site,date_time}"], space="all strings of 0..=24 bytes: free ASCII with one 2-byte character at any position", bounds="L = 24; chrono's NaiveDate/NaiveTime::parse_from_str stubbed by 'any result'; unwind 28", mem=12, timeout=1800)
for nm, sp in (("c04_type31_far_pointer_256m", "0x1000_0000"), ("c04_type31_far_pointer_max", "0xFFFF_FFFF")):
    h("C04", "c04::%s" % nm, tier="probe", funcs=["decode_digital_radar_data", "alloc::alloc::{alloc,alloc_zeroed,realloc} (request-size cap asserted)"], space="76-byte message, one block pointer = %s (concrete, far beyond the input), the other 30 header bytes free" % sp, bounds="fixed length 76, concrete pointer; unwind 32; every allocation request <= 16 MiB", mem=12, mfs=128, unwind_is_violation=True, timeout=1800)
h("C02", "z::c02_gate_buffer_exact", kind="z", script="smt/z_c04.py", funcs=["GenericDataBlock::new (MIR)"], space="all 2^16 gate counts x all 2^8 word sizes: allocation size == gates x (word / 8)", bounds="loop-free; QF_BV; z3 and cvc5 must agree", mem=6, timeout=900)
h("C04", "z::c04_gate_buffer_bound", kind="z", script="smt/z_c04.py", funcs=["GenericDataBlock::new (MIR)"], space="all 2^16 gate counts x all 2^8 word sizes", bounds="loop-free; QF_BV; z3 and cvc5 must agree", mem=6, timeout=900)
# the 'BZ' predicate and the decompress/decode error gates are part of C05's statement as well
# the header's date-time accessor is part of C05's statement too (the same query as in C08)
h("C05", "c08::c08_vol_header_exact", funcs=["nexrad_data::volume::Header::date_time", "volume::util::get_datetime"], space="all d in 1..=65535 x all t < 86,400,000 ms (other header bytes free)", bounds="no loop; complete", timeout=1800, mem=12)
h("C05", "c06::c06_record_compressed", funcs=["volume::Record::{from_slice,new,data,compressed}"], space="all byte strings of length 0..=12", bounds="L = 12", mem=4)
h("C05", "c06::c06_compressed_record_not_decoded", funcs=["volume::Record::{messages,compressed}"], space="all 12-byte records with the 'BZ' magic", bounds="magic bytes concrete", mem=8)
h("C05", "c06::c06_uncompressed_record_not_decompressed", funcs=["volume::Record::{decompress,compressed}"], space="all 5-byte records; all 12-byte records whose byte 4 is 'X'", bounds="only the gate before FFI", mem=8)
for nm, sp in (("c02_two_vol_ref", "VOL then REF, contiguous, pointers in order"), ("c02_two_ref_vol_permuted_gaps", "REF then VOL with gaps 3 and 1, pointer table permuted"),
               ("c02_two_elv_rad_gap", "ELV then RAD after a 4-byte gap"), ("c02_two_phi_rho_permuted", "PHI then RHO, gap 2, pointer table permuted"),
               ("c02_two_cfp_zdr", "CFP then ZDR, gap 1")):
    h("C02", "c02::%s" % nm, tier="quick" if nm in ("c02_two_ref_vol_permuted_gaps",) else "thorough", funcs=D31, space="header + 2 blocks (%s): all other bytes symbolic, word size 8|16" % sp, bounds="2 blocks, concrete layout; unwind 10", mfs=256, mem=16, timeout=2400)
h("C02", "c02::c02_two_vol_elv_declared_size_spans_gap", funcs=D31, space="header + VOL (declared size field = 60, concrete) + 8-byte gap + ELV: all other bytes symbolic", bounds="2 blocks, concrete layout and declared size; unwind 10", mfs=256, mem=16, timeout=2400)
h("C13", "c13::c13_cut_last_zone_at_730", tier="thorough", funcs=CFM, space="one segment whose azimuth 359 declares two zones (symbolic values); body cut after the first of them (730 of 734 bytes)", bounds="concrete cut point; unwind 362", mfs=1024, mem=30, timeout=9000)
for k, z in ((5, 0), (6, 0), (7, 0), (13, 2), (16, 2), (20, 1)):
    h("C13", "c13::c13_truncated_at_%d%s" % (k, "_z%d" % z if z and k != 20 else ""), tier="probe", funcs=CFM, space="body cut after %d bytes: segment count symbolic in 1..=255, date/time symbolic, first azimuth declares %d zones with symbolic values" % (k, z), bounds="concrete cut point %d; unwind 10" % k, mem=12, timeout=1200)
h("C13", "c13::c13_truncated_early", tier="probe", funcs=CFM, space="one declared segment, zero zone counts, every cut point 0..=30", bounds="L = 30; unwind 16", mem=12, timeout=1800, unwind_is_violation=True)
h("C09", "c09::c09_merge_stable_11_10_concrete", funcs=MG, space="one concrete pair of sweeps (11 + 10 radials, azimuth numbers colliding pairwise: 21 elements, the smallest input beyond the insertion-sort threshold)", bounds="concrete input; unwind 24", mfs=16384, mem=16, timeout=1500)
h("C09", "c09::c09_merge_stable_12_12_concrete", tier="thorough", funcs=MG, space="one concrete pair of 12-radial sweeps with pairwise colliding azimuth numbers (24 elements: beyond the insertion-sort threshold)", bounds="concrete input; unwind 26", mfs=16384, mem=24, timeout=3600)
h("C14", "c14::c14_probe_concrete", tier="thorough", funcs=SUMF, space="one concrete list R(1) R(1) S R(1) O(13) O(13)", bounds="concrete input; unwind 10", mfs=32768, mem=20, timeout=2400)
